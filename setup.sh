#!/bin/sh
# Nothing to build: the framework is pure Python run by /venv/bin/python against /repo's working tree.
set -e
cd "$(dirname "$0")"
mkdir -p evidence replays
/venv/bin/python - <<'PY'
import skfem, os, sys
p = os.path.realpath(skfem.__file__)
assert p.startswith('/repo/'), p
import numpy, scipy, meshio
print('setup ok: skfem from', p)
PY
