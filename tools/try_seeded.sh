#!/bin/sh
# try_seeded.sh <seeded-dir-name> [check ids...] : apply the change to /repo, run the checks, undo.
N=$1; shift
D=/verif/seeded/$N
[ -z "$(git -C /repo status --porcelain)" ] || { echo "/repo not clean"; exit 2; }
git -C /repo apply $D/patch.diff || exit 2
P=$(echo $N | cut -d- -f1)
[ $# -eq 0 ] && set -- $P
export VERIF_OUT_DIR=/dev/shm/try_out
for C in "$@"; do
  /verif/check $C --tier quick > /dev/shm/try_$N_$C.txt 2>&1; E=$?
  echo "== $N vs $C: exit=$E  $(grep -c '^VIOLATION' /dev/shm/try_$N_$C.txt) violation line(s)"
  grep -A2 '^VIOLATION' /dev/shm/try_$N_$C.txt | cut -c1-300 | head -9
  tail -1 /dev/shm/try_$N_$C.txt | cut -c1-200
done
git -C /repo checkout -- . 
