#!/bin/sh
# run_all.sh [tier] : run every registered check on the current tree, validate evidence against the schema
TIER=${1:-quick}
cd /verif
for id in $(python3 -c "import json;print(' '.join(c['property_id'] for c in json.load(open('MANIFEST.json'))['checks']))"); do
  S=$(date +%s)
  ./check $id --tier $TIER > /dev/shm/runall_$id.log 2>&1; E=$?
  printf "%s exit=%s %ss  %s\n" $id $E $(( $(date +%s) - S )) "$(tail -1 /dev/shm/runall_$id.log | cut -c1-150)"
done
python3-vt - <<'PY'
import json, jsonschema, glob
sch = json.load(open('/root/.vp/EVIDENCE.schema.json'))
man = json.load(open('/verif/MANIFEST.json'))
jsonschema.validate(man, json.load(open('/root/.vp/MANIFEST.schema.json')))
bad = 0
for c in man['checks']:
    try:
        ev = json.load(open(c['evidence_file']))
        jsonschema.validate(ev, sch)
        assert ev['level'] == c['level_claimed']['category'], 'level mismatch'
    except Exception as e:
        bad += 1
        print('EVIDENCE PROBLEM', c['property_id'], str(e)[:200])
print('evidence files valid' if not bad else f'{bad} evidence problem(s)')
PY
