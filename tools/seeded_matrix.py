#!/venv/bin/python
"""Run the quick check of the broken property against every kept seeded change, each in its own scratch
worktree (never in /repo), and record the outcome in seeded/<name>/meta.json and seeded/RESULTS.md.

usage: seeded_matrix.py [name ...]        (default: all)
"""
import json, os, subprocess, sys, glob, shutil
ROOT = '/verif'
names = sys.argv[1:] or sorted(os.path.basename(d) for d in glob.glob(ROOT + '/seeded/*-m*'))
head = subprocess.check_output(['git', '-C', '/repo', 'rev-parse', 'HEAD']).decode().strip()
rows = []
for n in names:
    d = f'{ROOT}/seeded/{n}'
    meta = json.load(open(d + '/meta.json'))
    prop = meta['breaks_property']
    if meta.get('out_of_domain'):
        rows.append((n, prop, meta.get('out_of_domain_short', 'not claimed: outside the domain of the property'), 'see meta.json'))
        print(rows[-1], flush=True)
        continue
    if meta.get('neutralised_by_fix'):
        # a later fix: commit in /repo made this change harmless (its demonstration passes with the change applied)
        rows.append((n, prop, f"no longer a defect (fix {meta['neutralised_by_fix']})", 'detected before that fix; see meta.json'))
        print(rows[-1], flush=True)
        continue
    wt = f'/dev/shm/seedwt_{n}'
    outd = f'/dev/shm/seedout_{n}'
    subprocess.run(['git', '-C', '/repo', 'worktree', 'remove', '--force', wt], capture_output=True)
    subprocess.check_call(['git', '-C', '/repo', 'worktree', 'add', '-q', '--detach', wt, head])
    try:
        r = subprocess.run(['git', '-C', wt, 'apply', d + '/patch.diff'], capture_output=True, text=True)
        if r.returncode != 0:
            rows.append((n, prop, 'patch does not apply to HEAD', ''))
            continue
        env = dict(os.environ, PYTHONPATH=wt, SKFEM_VERIF_REPO=wt, VERIF_OUT_DIR=outd)
        checks = [prop] + meta.get('also_run', [])
        det = []
        for c in checks:
            r = subprocess.run([ROOT + '/check', c, '--tier', 'quick'], env=env, capture_output=True, text=True)
            sigs = [l.strip()[len('signature: '):] for l in r.stdout.split('\n') if l.strip().startswith('signature:')]
            det.append({'check': c, 'exit': r.returncode, 'violating_signatures': len(sigs), 'first_signature': sigs[0] if sigs else None})
        meta['detected_by'] = det
        meta['detected'] = any(x['exit'] == 1 for x in det)
        json.dump(meta, open(d + '/meta.json', 'w'), indent=1)
        rows.append((n, prop, 'DETECTED' if meta['detected'] else 'missed', '; '.join(f"{x['check']}: exit {x['exit']}, {x['first_signature']}" for x in det)))
    finally:
        subprocess.run(['git', '-C', '/repo', 'worktree', 'remove', '--force', wt], capture_output=True)
        shutil.rmtree(outd, ignore_errors=True)
    print(rows[-1], flush=True)
# merge into RESULTS.md
res = {}
path = ROOT + '/seeded/RESULTS.md'
if os.path.exists(path):
    for l in open(path):
        if l.startswith('| C'):
            parts = [x.strip() for x in l.strip().strip('|').split('|')]
            res[parts[0]] = parts
for n, prop, verdict, detail in rows:
    meta = json.load(open(f'{ROOT}/seeded/{n}/meta.json'))
    res[n] = [n, prop, verdict, (meta.get('summary') or '')[:110].replace('|', '/'), detail.replace('|', '/')[:160]]
with open(path, 'w') as fh:
    fh.write('# Seeded changes vs checks (quick tier, each in a scratch worktree of /repo HEAD)\n\n')
    fh.write('| change | property | verdict | what it does | first signature |\n|---|---|---|---|---|\n')
    for k in sorted(res):
        fh.write('| ' + ' | '.join(res[k]) + ' |\n')
