#!/venv/bin/python
"""Run the repository's pinned test suite and compare with /root/.vp/BASELINE.json.

usage: baseline.py [repo_dir] [-n JOBS]     exit 0 iff every stable_pass test passes.
"""
import json, os, subprocess, sys, tempfile, xml.etree.ElementTree as ET

repo = '/repo'
jobs = '16'
args = sys.argv[1:]
while args:
    a = args.pop(0)
    if a == '-n':
        jobs = args.pop(0)
    else:
        repo = a
base = json.load(open('/root/.vp/BASELINE.json'))
want = set(base['stable_pass'])
fd, xml = tempfile.mkstemp(suffix='.xml', dir='/dev/shm')
os.close(fd)
env = dict(os.environ)
env.pop('SKFEM_VERIF', None)
cmd = ['/venv/bin/python', '-m', 'pytest', '-ra', '-q', '-p', 'no:cacheprovider', '--timeout=900',
       '--continue-on-collection-errors', f'--junitxml={xml}']
if jobs != '0':
    cmd += ['-n', jobs]
env['PYTHONPATH'] = repo  # make sure the given tree is the one imported
r = subprocess.run(cmd, cwd=repo, env=env, stdout=subprocess.PIPE, stderr=subprocess.STDOUT, text=True)
passed = set()
for tc in ET.parse(xml).getroot().iter('testcase'):
    ok = not any(ch.tag in ('failure', 'error', 'skipped') for ch in tc)
    if ok:
        passed.add(f"{tc.get('classname')}::{tc.get('name')}")
os.unlink(xml)
missing = sorted(want - passed)
print(r.stdout.strip().split('\n')[-1])
print(f"stable_pass={len(want)} passed_now={len(passed)} missing={len(missing)}")
for m in missing[:40]:
    print("  NOT PASSING:", m)
sys.exit(1 if missing else 0)
