#!/bin/sh
# verify_seeded.sh <PROP> <k> : confirm a sub-agent's change in its scratch worktree
#   (suite passes with the change; demo exits 1 with it and 0 without), then store it as
#   /verif/seeded/<PROP>-m<k>/{patch.diff,demo.py,meta.json}
P=$1; K=$2; T=${3:-$2}   # T: index under which the change is stored (later waves: m4..)
WT=/tmp/mut/wt_$P; OUT=/tmp/mut/out_$P
set -e
git -C $WT checkout -q -- . ; git -C $WT clean -fdq
# the worktree may be behind /repo HEAD (later fix: commits); bring it to HEAD
git -C $WT checkout -q --detach "$(git -C /repo rev-parse HEAD)"
git -C $WT apply --check $OUT/m$K.diff
git -C $WT apply $OUT/m$K.diff
set +e
PYTHONPATH=$WT /venv/bin/python $OUT/m${K}_demo.py > /dev/shm/demo_with.txt 2>&1; D1=$?
/verif/tools/baseline.py $WT > /dev/shm/suite_with.txt 2>&1; S=$?
git -C $WT checkout -q -- . ; git -C $WT clean -fdq
PYTHONPATH=$WT /venv/bin/python $OUT/m${K}_demo.py > /dev/shm/demo_without.txt 2>&1; D0=$?
echo "demo_with_change_exit=$D1 demo_without_change_exit=$D0 suite_with_change_exit=$S ($(tail -1 /dev/shm/suite_with.txt))"
if [ $D1 = 1 ] && [ $D0 = 0 ] && [ $S = 0 ]; then
  D=/verif/seeded/$P-m$T; mkdir -p $D
  cp $OUT/m$K.diff $D/patch.diff; cp $OUT/m${K}_demo.py $D/demo.py
  /venv/bin/python - "$P" "$K" "$D" <<'PY'
import json, sys, subprocess
P, K, D = sys.argv[1:4]
src = json.load(open(f'/tmp/mut/out_{P}/m{K}.json'))
meta = {'breaks_property': P, 'summary': src.get('summary'), 'needs_to_manifest': src.get('needs_to_manifest'),
        'files': src.get('files'), 'origin': 'fresh sub-agent given only the property text and a scratch worktree',
        'confirmed': {'base_commit': subprocess.check_output(['git', '-C', '/repo', 'rev-parse', '--short', 'HEAD']).decode().strip(),
                      'what_i_ran': ['git apply patch.diff in a scratch worktree of /repo HEAD',
                                     'tools/baseline.py <worktree>  -> all 536 stable tests pass with the change',
                                     'demo.py exits 1 with the change, 0 without'],
                      'demo_output_with_change': open('/dev/shm/demo_with.txt').read()[-600:]},
        'detected_by': None}
json.dump(meta, open(f'{D}/meta.json', 'w'), indent=1)
PY
  echo "KEPT $D"
else
  echo "REJECTED $P m$K"; tail -5 /dev/shm/demo_with.txt; tail -3 /dev/shm/suite_with.txt
fi
