#!/venv/bin/python
"""Rebuild seeded/RESULTS.md from the meta.json files (what tools/seeded_matrix.py recorded per change)."""
import glob, json, os, re
ROOT = '/verif'
rows = []
for d in glob.glob(ROOT + '/seeded/*-m*'):
    n = os.path.basename(d)
    meta = json.load(open(d + '/meta.json'))
    prop = meta['breaks_property']
    if meta.get('neutralised_by_fix'):
        verdict, detail = f"no longer a defect (fix {meta['neutralised_by_fix']})", 'detected before that fix; see meta.json'
    elif meta.get('out_of_domain'):
        verdict, detail = meta.get('out_of_domain_short', 'not claimed: outside the domain of the property'), 'detected while such pre-states were explored; see meta.json'
    elif meta.get('detected_by') is None:
        verdict, detail = 'not run', ''
    else:
        det = meta['detected_by']
        verdict = 'DETECTED' if any(x['exit'] == 1 for x in det) else 'missed'
        detail = '; '.join(f"{x['check']}: exit {x['exit']}, {x['first_signature']}" for x in det)
    rows.append((n, prop, verdict, (meta.get('summary') or '')[:110].replace('|', '/').replace('\n', ' '), detail.replace('|', '/')[:160]))
key = lambda r: (r[0].split('-m')[0], int(r[0].split('-m')[1]))
with open(ROOT + '/seeded/RESULTS.md', 'w') as fh:
    fh.write('# Seeded changes vs checks (quick tier, each in a scratch worktree of /repo HEAD)\n\n')
    fh.write('| change | property | verdict | what it does | first signature |\n|---|---|---|---|---|\n')
    for r in sorted(rows, key=key):
        fh.write('| ' + ' | '.join(r) + ' |\n')
import collections
print(collections.Counter(r[2].split(' (')[0] for r in rows))
