#!/venv/bin/python
"""Regenerate /verif/MANIFEST.json from the property modules that exist (mc/props/cNN.py)."""
import importlib, json, os, sys
ROOT = os.path.dirname(os.path.dirname(os.path.abspath(__file__)))
sys.path.insert(0, ROOT)
props = [json.loads(l) for l in open(os.path.join(ROOT, 'properties.jsonl'))]
checks, na = [], []
for p in props:
    pid = p['id']
    path = os.path.join(ROOT, 'mc', 'props', pid.lower() + '.py')
    if not os.path.exists(path):
        na.append({'property_id': pid, 'reason': 'check not built yet (planned, see DESIGN.md section 2); '
                   'bounded exhaustive exploration applies to it'})
        continue
    m = importlib.import_module('mc.props.' + pid.lower())
    c = {
        'property_id': pid,
        'quick_cmd': f'./check {pid} --tier quick',
        'thorough_cmd': f'./check {pid} --tier thorough',
        'evidence_file': f'/verif/evidence/{pid}.json',
        'replay_cmd_template': f'./check {pid} --replay {{path}}',
        'engine': 'mc',
        'level_claimed': {'category': m.LEVEL, 'text': m.LEVEL_TEXT, 'design_ref': f'DESIGN.md section 2, {pid}'},
        'level_note': m.LEVEL_NOTE + (' Additions after the seeded-change waves: ' + '; '.join(getattr(m, 'EXTENSIONS', [])) + '.' if getattr(m, 'EXTENSIONS', None) else ''),
        'technique': m.TECHNIQUE,
    }
    checks.append(c)
man = {
    'version': 1,
    'setup_cmd': 'cd /verif && ./setup.sh',
    'hooks': {
        'guard': 'SKFEM_VERIF',
        'enable': 'none needed: no source hooks; checks import /repo (editable install in /venv) and '
                  'take control through public seams (module-level Thread name, user callbacks, plain attributes)',
        'baseline_off_cmd': 'cd /repo && env -u SKFEM_VERIF /venv/bin/python -m pytest -ra -q -p no:cacheprovider --timeout=900 '
                            '--continue-on-collection-errors --junitxml=/dev/shm/skfem_baseline_off.junit.xml',
        'source_commits': [],
        'add_only': True,
    },
    'engines': [{
        'name': 'mc', 'path': '/verif/mc',
        'serves_properties': [c['property_id'] for c in checks],
        'kind_free_text': 'hand-written bounded-exhaustive explorer for Python: explicit-state BFS over real API '
                          'operation histories (MeshSpace), stateless schedule enumeration under a baton scheduler, '
                          'small-scope input enumeration against exact (Fraction) reference models; runs the real '
                          'implementation in every explored case',
    }],
    'checks': checks,
    'notes': 'Known findings: /verif/known_findings.json (open => KNOWN-FINDING line, fixed => suppress nothing). '
             'Replay files under /verif/replays/<id>/. tools/baseline.py compares the repository suite with BASELINE.json.',
    'not_applicable': na,
}
json.dump(man, open(os.path.join(ROOT, 'MANIFEST.json'), 'w'), indent=1)
print(f"checks={len(checks)} not_applicable={len(na)}")
