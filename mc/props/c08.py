"""C08 - quadrature rules deliver their advertised degree on every reference cell.

Finite and complete: every reference cell x every order in [-3, NMAX] the dispatcher
accepts x every monomial the rule must integrate, against exact rational integrals.
"""
from __future__ import annotations

import numpy as np

from ..report import Out
from .. import exact as ex

ID = 'C08'
# sub-checks added after the seeded-change waves (DESIGN.md sections 5 and 6)
EXTENSIONS = [
    'aliasing pass: the caller scribbles over a returned rule and asks again',
]
LEVEL = 'exploration'
RULE = ("items = (reference cell, order n) for all 7 reference cells and all n in [-3, 64]; an "
        "accepted order is checked on EVERY monomial of total degree <= n (simplices), "
        "per-direction degree <= n (quad/hex), (total <= n) x (axis <= n) (prism), against "
        "Fraction integrals; plus sum(w) == |K|, nodes in the closed cell, array shapes; a "
        "rejected order must raise. non-trivial = accepted (cell, order) pair with n >= 1 "
        "(at least one non-constant monomial of the top degree was integrated); distinct by "
        "(cell, n).")
ASSUMPTIONS = [
    "tolerance 4e-14 * max(1, nq/1000) absolute on integrals of monomials over reference cells "
    "(all values <= 1); table entries carry 15-16 significant digits",
    "orders above 64 are not requested (Gauss-Legendre generation is uniform in n; the tabulated "
    "rules end far below)",
]
BOUNDS = {'quick': {'orders': [-3, 64], 'hex_monomials_full_up_to': 64},
          'thorough': {'orders': [-3, 64], 'hex_monomials_full_up_to': 64}}
KINDS = ['point', 'line', 'tri', 'quad', 'tet', 'hex', 'wedge']
NMIN, NMAX = -3, 64


def _refdom(kind):
    from skfem import refdom as rd
    return {'point': rd.RefPoint, 'line': rd.RefLine, 'tri': rd.RefTri, 'quad': rd.RefQuad,
            'tet': rd.RefTet, 'hex': rd.RefHex, 'wedge': rd.RefWedge}[kind]


def items(tier, seed):
    return [(k, n) for k in KINDS for n in range(NMIN, NMAX + 1)]


def cost(item):
    k, n = item
    return max(n, 1) ** (6 if k == 'hex' else 4 if k in ('quad', 'wedge') else 1)


def work(item, tier, seed):
    from skfem.quadrature import get_quadrature
    kind, n = item
    out = Out()
    out.set_item(item)
    out.ev()
    dim = ex.REF_DIM[kind]
    try:
        X, W = get_quadrature(_refdom(kind), n)
    except (NotImplementedError, KeyError, ValueError) as e:
        out.outcome((kind, 'raises', type(e).__name__))
        out.count('orders_rejected')
        return out
    out.count('orders_accepted')
    X = np.asarray(X, dtype=float)
    W = np.asarray(W, dtype=float)
    sig0 = f"C08|{kind}|order={n}|"
    if X.ndim != 2 or W.ndim != 1 or X.shape != (dim, W.shape[0]):
        out.violation(sig0 + 'shape', f"points {X.shape} weights {W.shape} for dim {dim}",
                      case={'kind': kind, 'order': n})
        return out
    nq = W.shape[0]
    out.outcome((kind, nq))
    tol = 4e-14 * max(1.0, nq / 1000.0)
    meas = float(ex.REF_MEASURE[kind])
    if abs(W.sum() - meas) > tol:
        out.violation(sig0 + 'weight-sum',
                      f"sum of weights {W.sum()!r} != measure {meas} (nq={nq})",
                      case={'kind': kind, 'order': n, 'sum_w': float(W.sum())})
    inside = ex.in_closed_ref(kind, X)
    if not inside.all():
        j = int(np.nonzero(~inside)[0][0])
        out.violation(sig0 + 'node-outside',
                      f"{int((~inside).sum())} of {nq} nodes outside the closed reference cell, "
                      f"e.g. {X[:, j].tolist()}",
                      case={'kind': kind, 'order': n, 'node': X[:, j].tolist()})
    if not np.isfinite(X).all() or not np.isfinite(W).all():
        out.violation(sig0 + 'nonfinite', "non-finite node or weight", case={'kind': kind, 'order': n})
        return out
    # all admissible monomials, evaluated through separable power tables
    ne = max(n, 0)
    if dim == 0:
        got = W.sum()
        out.ev()
        if abs(got - 1.0) > tol:
            out.violation(sig0 + 'inexact', f"point rule gives {got}", case={'kind': kind, 'order': n})
        out.nt((kind, n))
        return out
    P = [np.vstack([X[d] ** a for a in range(ne + 1)]) for d in range(dim)]   # (ne+1, nq)
    worst = (0.0, None, None, None)
    nmono = 0
    if dim == 1:
        T = P[0] @ W
        for a in range(ne + 1):
            e = float(ex.int_line(a))
            nmono += 1
            d = abs(T[a] - e)
            if d > worst[0]:
                worst = (d, (a,), T[a], e)
    elif dim == 2:
        T = (P[0] * W) @ P[1].T
        for a in range(ne + 1):
            for b in range(ne + 1):
                if kind == 'tri' and a + b > ne:
                    continue
                e = float(ex.ref_monomial_integral(kind, (a, b)))
                nmono += 1
                d = abs(T[a, b] - e)
                if d > worst[0]:
                    worst = (d, (a, b), T[a, b], e)
    else:
        for a in range(ne + 1):
            Ta = (P[1] * (P[0][a] * W)) @ P[2].T      # (b, c)
            for b in range(ne + 1):
                if kind in ('tet', 'wedge') and a + b > ne:
                    continue
                for c in range(ne + 1):
                    if kind == 'tet' and a + b + c > ne:
                        continue
                    e = float(ex.ref_monomial_integral(kind, (a, b, c)))
                    nmono += 1
                    d = abs(Ta[b, c] - e)
                    if d > worst[0]:
                        worst = (d, (a, b, c), Ta[b, c], e)
    out.ev(nmono)
    out.count('monomials_checked', nmono)
    out.counters['max_err_x1e18'] = max(out.counters['max_err_x1e18'], int(worst[0] * 1e18))
    if worst[0] > tol:
        out.violation(sig0 + 'inexact',
                      f"monomial x^{worst[1]} integrates to {worst[2]!r}, exact {worst[3]!r} "
                      f"(err {worst[0]:.3e}, nq={nq})",
                      case={'kind': kind, 'order': n, 'monomial': worst[1],
                            'got': float(worst[2]), 'exact': float(worst[3])})
    # the caller owns what it gets: scribbling over a returned rule must not change the next answer
    X0, W0 = X.copy(), W.copy()
    try:
        X *= -3.0
        W *= 0.0
    except ValueError:
        pass                      # read-only arrays are fine too
    X2, W2 = get_quadrature(_refdom(kind), n)
    out.ev()
    if not (np.array_equal(np.asarray(X2), X0) and np.array_equal(np.asarray(W2), W0)):
        out.violation(sig0 + 'aliased-result', "a second request returns a different rule after the caller modified the "
                      "arrays returned by the first request (results share storage)", case={'kind': kind, 'order': n})
    # lower-dimensional rules used to build tensor rules must not be shared either
    if kind in ('quad', 'hex', 'wedge'):
        from skfem import refdom as rd
        Xl, Wl = get_quadrature(rd.RefLine, n)
        try:
            Xl *= 2.0
            Wl *= 0.5
        except ValueError:
            pass
        X3, W3 = get_quadrature(_refdom(kind), n)
        if not (np.array_equal(np.asarray(X3), X0) and np.array_equal(np.asarray(W3), W0)):
            out.violation(sig0 + 'aliased-result', "the rule changes after the caller modified a segment rule of the same "
                          "order (tensor rules share storage with it)", case={'kind': kind, 'order': n})
    if n >= 1:
        out.nt((kind, n))
    out.sample({'cell': kind, 'order': n, 'nq': nq, 'monomials': nmono, 'max_abs_err': worst[0]}, 1)
    return out


def finish(total, tier, seed):
    # counters are summed on merge; the max error is not a sum - drop it to avoid confusion
    total.counters.pop('max_err_x1e18', None)

TECHNIQUE = "exhaustive enumeration of a finite configuration space against an exact rational oracle"
LEVEL_TEXT = ("Complete enumeration: every (reference cell, order) pair in [-3, 64] is requested from the real "
              "dispatcher and every monomial the order promises is integrated and compared with its exact "
              "rational integral; weights/nodes/shape checked too. The space is finite, so within the order range "
              "this decides the property (exhaustive: true).")
LEVEL_NOTE = ("Trusts numpy float summation to 4e-14 and Python's Fraction/factorial for the reference integrals; "
              "orders above 64 not requested.")
