"""C18 - mesh surgery keeps geometry valid and carries tags to the same entities.

Every library-operation edge (all parameter variants within the bound) out of every state
reachable by bounded compositions, with tag saturation; relation per operation expressed on
cells/facets as sets of exact vertex coordinates.
"""
from __future__ import annotations

import collections
import itertools
from fractions import Fraction as Fr

import numpy as np

from ..report import Out
from .. import meshspace as ms
from .. import meshops as mo
from ..topo import REF, Topo, KIND_OF_CLASS, geometry_problems, mesh_measure

ID = 'C18'
# sub-checks added after the seeded-change waves (DESIGN.md sections 5 and 6)
EXTENSIONS = [
    'scrambled / reversed line meshes in extrusion; join with the reflection (+0.0 / -0.0); joins in a 2^-7 length unit; descending / list restrict forms; chained @; to_meshtri with one kind of tag only; restricting to an empty tag is not a legal input',
]
LEVEL = 'model_checking'
TECHNIQUE = "explicit-state BFS over compositions of mesh operations; exact geometric transition relation per operation; tag saturation"
LEVEL_TEXT = ("States are real meshes with saturated tags; transitions are the real operations restrict / remove_elements (ALL "
              "cell subsets on <= 6 cells, bounded family beyond; array and tag-name forms; mapping and skip flags), join of "
              "all bipartitions (+ and @), to_meshtri (both styles) / to_meshtet, extrusion, mirrored / translated / scaled / "
              "morphed, oriented, remove_unused_nodes / remove_duplicate_nodes (after raw insertions of unused / duplicate "
              "vertices), trace, composed to depth D with exact-byte state dedup. Each edge is judged by an exact relation on "
              "cells and facets as sets of vertex coordinates: expected cell set, exact measure, coordinate transform, no "
              "duplicate/unused vertices, carried tags designate the same geometric entities, tags of removed entities vanish, "
              "returned index maps relate new to old numbering.")
LEVEL_NOTE = ("Dyadic coordinates; mirrored() with non-axis normals compared to 1e-12; join rounds to 8 decimals by design "
              "(coordinates used are exactly representable at that precision); orientation flags of oriented tags are outside "
              "the claim; bounded mesh size.")
RULE = ("state = mesh bytes incl. tags; transition = (operation, parameters). non-trivial = distinct (state, operation, "
        "parameters) whose result has >= 1 cell and where at least one tag names an entity that is removed and one that "
        "survives, or the operation renumbers vertices/cells/facets.")
ASSUMPTIONS = [
    "straight-sided first-order meshes with dyadic coordinates",
    "an operation may drop tags (None); if it returns tags they must be right",
]
BOUNDS = {'quick': {'depth': 2, 'second_level_ops': 'cheap family', 'all_subsets_upto_cells': 5, 'max_cells': 40},
          'thorough': {'depth': 2, 'second_level_ops': 'full family', 'all_subsets_upto_cells': 6, 'max_cells': 80}}
ITEM_TIMEOUT = {'quick': 900, 'thorough': 7200}


# ---------------------------------------------------------------------------------------
# geometric keys
# ---------------------------------------------------------------------------------------

def vkey(p, v):
    return tuple(float(x) for x in p[:, v])


def cell_keys(m, kind):
    nn = REF[kind]['nn']
    t = np.asarray(m.t)[:nn]
    return [frozenset(vkey(m.p, v) for v in t[:, c]) for c in range(t.shape[1])]


def facet_keys(m):
    f = m.facets
    return [frozenset(vkey(m.p, v) for v in f[:, j]) for j in range(f.shape[1])]


def mapk(key, phi):
    return frozenset(phi(q) for q in key)


def kind_of(m):
    return KIND_OF_CLASS[type(m).__name__]


def subsets(n, full_upto):
    if n <= full_upto:
        out = []
        for k in range(1, n + 1):
            out += list(itertools.combinations(range(n), k))
        return out
    out = [(i,) for i in range(n)]
    pairs = list(itertools.combinations(range(n), 2))
    if len(pairs) > 24:
        step = len(pairs) / 24
        pairs = [pairs[int(i * step)] for i in range(24)]
    out += pairs + [tuple(range(0, n, 2)), tuple(range(n // 2)), tuple(range(1, n)), tuple(range(n))]
    return list(dict.fromkeys(out))


# ---------------------------------------------------------------------------------------
# generic checks
# ---------------------------------------------------------------------------------------

def check_valid(m1, kind1, bad, hanging=True, unused_ok=False):
    nn = REF[kind1]['nn']
    pr = geometry_problems(kind1, m1.p, np.asarray(m1.t)[:nn], check_hanging=hanging)
    if unused_ok:
        pr = [q for q in pr if 'not referenced' not in q]
        if pr:
            bad('invalid-result', '; '.join(pr[:3]))
            return False
        return True
    if pr:
        bad('invalid-result', '; '.join(pr[:3]))
        return False
    try:
        if not m1.is_valid():
            bad('is_valid-false', "result.is_valid() is False")
            return False
    except Exception as e:
        bad('is_valid-exception', repr(e))
        return False
    return True


def check_tags_same_entities(m0, m1, phi, bad, cell_map=None, facets_surviving=None, kind0=None, kind1=None):
    """Carried tags designate the same geometric entities.  cell_map: new cell index -> old cell
    index (identity if None).  facets are compared through coordinate keys mapped by phi."""
    s0, s1 = mo.tag_sets(m0.subdomains), mo.tag_sets(m1.subdomains)
    nt1 = m1.t.shape[1]
    if s0 is not None and s1 is not None:
        for name, old in s0.items():
            if name not in s1:
                bad('subdomain-name-lost', f"subdomain '{name}' missing")
                break
            want = {c1 for c1 in range(nt1) if (c1 if cell_map is None else cell_map[c1]) in old}
            if s1[name] != want:
                bad('subdomains', f"subdomain '{name}' (old cells {sorted(old)}) now names {sorted(s1[name])[:10]}, "
                    f"expected {sorted(want)[:10]}")
                break
        extra = set(s1) - set(s0)
        if extra:
            bad('subdomain-name-invented', f"new subdomain names {sorted(extra)[:3]}")
    b0, b1 = mo.tag_sets(m0.boundaries), mo.tag_sets(m1.boundaries)
    if b0 is not None and b1 is not None:
        fk0 = facet_keys(m0)
        fk1 = facet_keys(m1)
        have1 = set(fk1)
        for name, old in b0.items():
            if name not in b1:
                bad('boundary-name-lost', f"boundary '{name}' missing")
                break
            if any(j < 0 or j >= len(fk1) for j in b1[name]):
                bad('boundaries-out-of-range', f"boundary '{name}' holds indices outside 0..{len(fk1) - 1}")
                break
            want = {mapk(fk0[j], phi) for j in old}
            want &= have1          # facets that no longer exist vanish
            got = {fk1[j] for j in b1[name]}
            if got != want:
                bad('boundaries', f"boundary '{name}' (old facets {sorted(old)}) designates {len(got)} facets, expected "
                    f"{len(want)} (the same geometric facets); e.g. wrong {sorted(map(sorted, got - want))[:1]} missing "
                    f"{sorted(map(sorted, want - got))[:1]}")
                break


ident = lambda q: q  # noqa: E731


# ---------------------------------------------------------------------------------------
# operations: each yields (label, params-json, thunk(m0) -> result, judge(m0, result, bad, out))
# ---------------------------------------------------------------------------------------

def ops_for(st, bd, level):
    kind, nt, dim = st.kind, st.nt, st.p.shape[0]
    cheap = (level >= 2 and bd['second_level_ops'] == 'cheap family')
    full_upto = bd['all_subsets_upto_cells'] if not cheap else 3
    ops = []

    # ---- restrict / remove_elements ------------------------------------------------------
    for S in subsets(nt, full_upto):
        if cheap and len(S) not in (1, nt - 1):
            continue
        S = tuple(S)

        def j_restrict(m0, res, bad, out, S=S, removed=False, form='array'):
            m1, ix = res
            keep = [c for c in range(m0.t.shape[1]) if c not in S] if removed else list(S)
            if not keep:
                return
            k0 = cell_keys(m0, kind)
            k1 = cell_keys(m1, kind)
            # the ORDER of the kept cells in the result is not part of the claim: new cells are matched to old ones by geometry
            old_of_key = {k0[c]: c for c in keep}
            if len(k1) != len(keep) or set(k1) != set(old_of_key) or len(set(k1)) != len(k1):
                bad('cells', f"result cells are not cells {sorted(keep)} of the operand (as coordinate sets)")
                return
            cmap = [old_of_key[k] for k in k1]
            if ix is not None and not np.array_equal(m1.p, m0.p[:, ix]):
                bad('vertex-mapping', "returned vertex mapping does not relate new to old coordinates")
            if not check_valid(m1, kind, bad, hanging=False):
                return
            check_tags_same_entities(m0, m1, ident, bad, cell_map=cmap)
            out.outcome(('restrict', len(keep), m0.t.shape[1]))
        if len(S) < nt or True:
            ops.append((f'restrict({list(S)})', lambda m, S=S: m.restrict(np.array(S, dtype=np.int32), return_mapping=True),
                        j_restrict))
        if len(S) >= 2 and not cheap:
            # the same subset as a descending int64 array (cells come in the given order) and as a list; every carried
            # tag follows the cells
            R = tuple(S[::-1])
            ops.append((f'restrict({list(R)} descending int64)', lambda m, R=R: m.restrict(np.array(R, dtype=np.int64), return_mapping=True),
                        lambda m0, res, bad, out, R=R: j_restrict(m0, res, bad, out, S=R)))
            # (a list is a collection of selections: the library reduces it to the ascending set of cells)
            ops.append((f'restrict(list {list(R)})', lambda m, R=R: m.restrict([int(c) for c in R], return_mapping=True),
                        lambda m0, res, bad, out, R=R: j_restrict(m0, res, bad, out, S=tuple(sorted(R)))))
        if len(S) < nt:
            ops.append((f'remove_elements({list(S)})',
                        lambda m, S=S: (m.remove_elements(np.array(S, dtype=np.int32)), None),
                        lambda m0, res, bad, out, S=S: j_restrict(m0, res, bad, out, S=S, removed=True)))
    if not cheap and nt >= 2:
        S = (0,)
        tname = mo.tagname('s', S)
        def named_restrict(m):
            if m.subdomains is None or tname not in m.subdomains or len(m.subdomains[tname]) == 0:
                raise _EmptySelection()       # an empty mesh cannot exist: restricting to an empty tag is not a legal input
            return m.restrict(tname, return_mapping=True)
        ops.append((f"restrict('{tname}')", named_restrict,
                    lambda m0, res, bad, out: ops[0][2](m0, res, bad, out) if False else
                    _j_restrict_named(m0, res, bad, out, kind, tname)))

        def j_skip(m0, res, bad, out):
            if res.boundaries is not None or res.subdomains is not None:
                bad('skip-flags', "restrict(skip_boundaries, skip_subdomains) returned tags")
        ops.append(('restrict([0],skip)', lambda m: m.restrict(np.array([0]), skip_boundaries=True, skip_subdomains=True),
                    j_skip))

    # ---- join of bipartitions ------------------------------------------------------------
    if nt >= 2 and not cheap:
        parts = [S for S in subsets(nt, min(full_upto, 5)) if 0 in S and len(S) < nt]
        for A in parts[:15]:
            B = tuple(c for c in range(nt) if c not in A)

            def thunk(m, A=A, B=B):
                a = m.restrict(np.array(A, dtype=np.int32))
                b = m.restrict(np.array(B, dtype=np.int32))
                return a + b, a @ b, a, b

            def j_join(m0, res, bad, out, A=A, B=B):
                m1, lst, a, b = res
                k0 = cell_keys(m0, kind)
                want = [k0[c] for c in A] + [k0[c] for c in B]
                if collections.Counter(cell_keys(m1, kind)) != collections.Counter(want):      # (cell order is not part of the claim)
                    bad('join-cells', f"restrict({list(A)}) + restrict({list(B)}) does not reproduce the cells")
                    return
                if type(m1) is not type(m0):
                    bad('join-class', type(m1).__name__)
                nvu = len({vkey(m0.p, v) for v in np.unique(m0.t[:REF[kind]['nn']])})
                if m1.p.shape[1] != nvu:
                    bad('join-vertices', f"{m1.p.shape[1]} vertices after join, {nvu} distinct coordinates expected "
                        f"(shared-vertex structure)")
                check_valid(m1, kind, bad, hanging=False)
                # '@' returns meshes over one shared vertex array
                if len(lst) != 2 or not np.array_equal(lst[0].p, lst[1].p):
                    bad('matmul-shared-p', "a @ b does not return two meshes over one vertex array")
                else:
                    if cell_keys(lst[0], kind) != [k0[c] for c in A] or cell_keys(lst[1], kind) != [k0[c] for c in B]:
                        bad('matmul-cells', "a @ b changed the cells")
                    seen = {}
                    for v in range(lst[0].p.shape[1]):
                        kk = vkey(lst[0].p, v)
                        if kk in seen:
                            bad('matmul-duplicates', "a @ b keeps duplicate vertices")
                            break
                        seen[kk] = v
                out.outcome(('join', len(A), len(B)))
            ops.append((f'restrict({list(A)})+restrict({list(B)})', thunk, j_join))
            if len(B) >= 2 and len(ops) % 2 == 0:
                # '@' chained on one of its own results (which stores vertices above its highest used index)
                def thunk_c(m, A=A, B=B):
                    a = m.restrict(np.array(A, dtype=np.int32))
                    b1 = m.restrict(np.array(B[:1], dtype=np.int32))
                    b2 = m.restrict(np.array(B[1:], dtype=np.int32))
                    first = a @ b1
                    return first[0] @ b2, first, [a, b1, b2]

                def j_chain(m0, res, bad, out, A=A, B=B):
                    lst, first, parts = res
                    k0 = cell_keys(m0, kind)
                    want = [[k0[c] for c in A], [k0[c] for c in B[1:]]]
                    if len(lst) != 2 or not np.array_equal(lst[0].p, lst[1].p):
                        bad('matmul-shared-p', "(a @ b)[0] @ c does not return two meshes over one vertex array")
                        return
                    for k_, (mm, w) in enumerate(zip(lst, want)):
                        if cell_keys(mm, kind) != w:
                            bad('matmul-cells', f"(a @ b)[0] @ c: the cells of result {k_} are not the cells of its operand "
                                f"(as coordinate sets)")
                            return
                    out.outcome(('matmul-chain', len(A), len(B)))
                ops.append((f'(restrict({list(A)}) @ restrict({list(B[:1])}))[0] @ restrict({list(B[1:])})', thunk_c, j_chain))
            # (operands that keep points no cell uses are rejected by Mesh.is_valid(): not in the property's domain; only the
            # library-made results of '@', which share one vertex array by design, are chained below)
    # ---- join in a small length unit: the library rounds to 8 decimals by design, so joined coordinates are right to 5e-9
    if not cheap and nt >= 2 and nt <= 8:
        def thunk_s(m):
            sc = m.scaled(2.0 ** -7)
            A_ = np.arange(0, nt, 2)
            B_ = np.arange(1, nt, 2)
            return sc.restrict(A_) + sc.restrict(B_), sc, (A_, B_)

        def j_small(m0, res, bad, out):
            m1, sc, (A_, B_) = res
            nn_ = REF[kind]['nn']
            want = [np.sort(sc.p[:, sc.t[:nn_, c]], axis=1) for c in list(A_) + list(B_)]
            got = [np.sort(m1.p[:, m1.t[:nn_, c]], axis=1) for c in range(m1.t.shape[1])]
            if len(got) != len(want):
                bad('join-cells', f"{len(got)} cells after joining the two halves of the mesh scaled by 2^-7")
                return
            err = max(np.abs(np.sort(g.T, axis=0) - np.sort(w.T, axis=0)).max() for g, w in zip(got, want))
            if err > 6e-9:
                bad('join-coordinates', f"joining two halves of the mesh scaled by 2^-7 moves vertices by {err:.2e} (more than the "
                    f"5e-9 of rounding to 8 decimals)")
            out.outcome(('join-small', nt))
        ops.append(('scaled(2^-7): restrict(even) + restrict(odd)', thunk_s, j_small))
    # ---- join with the reflection in the plane x0 = min x0 (shared vertices carry +0.0 on one side and -0.0 on the other)
    if not cheap and nt <= 8:
        def thunk_r(m):
            x0 = float(m.p[0].min())
            sh = m.translated(tuple([-x0] + [0.] * (dim - 1)))
            return sh + sh.scaled(tuple([-1.] + [1.] * (dim - 1))), sh

        def j_refl(m0, res, bad, out):
            m1, sh = res
            on_plane = int((sh.p[0, np.unique(sh.t[:REF[kind]['nn']])] == 0).sum())
            nv_used = len(np.unique(sh.t[:REF[kind]['nn']]))
            if m1.t.shape[1] != 2 * m0.t.shape[1]:
                bad('join-reflection-cells', f"{m1.t.shape[1]} cells after joining a mesh with its reflection")
                return
            if m1.p.shape[1] != 2 * nv_used - on_plane:
                bad('join-reflection-vertices', f"mesh + reflection in the plane x0 = min x0: {m1.p.shape[1]} vertices, expected "
                    f"{2 * nv_used - on_plane} ({on_plane} vertices lie on the plane and are shared; +0.0 / -0.0)")
                return
            check_valid(m1, kind, bad, hanging=False)
            out.outcome(('join-reflection', on_plane))
        ops.append(('m + reflection(x0 = min x0)', thunk_r, j_refl))

    # ---- splits -----------------------------------------------------------------------------
    def j_split(kind1, nchild):
        def judge(m0, res, bad, out):
            m1 = res[0] if isinstance(res, tuple) else res
            if kind_of(m1) != kind1:
                bad('split-class', type(m1).__name__)
                return
            nn1 = REF[kind1]['nn']
            if m1.t.shape[1] != nchild * m0.t.shape[1]:
                bad('split-count', f"{m1.t.shape[1]} cells from {m0.t.shape[1]}")
                return
            if not check_valid(m1, kind1, bad):
                return
            g0 = mo.Geo(kind, m0.p, m0.t)
            g1 = mo.Geo(kind1, m1.p, m1.t)
            parents, probs = mo.parent_map(kind, g0, g1)
            if probs:
                bad('split-containment', '; '.join(probs[:2]))
                return
            for P in range(m0.t.shape[1]):
                tot = sum((g1.cell_measure(c) for c, q in enumerate(parents) if q == P), Fr(0))
                if tot != g0.cell_measure(P):
                    bad('split-measure', f"children of cell {P} have measure {float(tot)} != {float(g0.cell_measure(P))}")
                    return
            # conformity of the split: every boundary facet of the result lies on the old boundary
            T1 = Topo(kind1, m1.t)
            if any(len(cs) > 2 for cs in T1.facet_cells.values()):
                bad('split-nonmanifold', "a facet of the result belongs to more than two cells")
                return
            fv0 = mo.facet_vertex_lists(kind, m0)
            bf0 = [j for j in m0.boundary_facets()]
            for f, cs in T1.facet_cells.items():
                if len(cs) != 1:
                    continue
                pts = [g1.v(v) for v in f]
                if not any(all(mo.point_in_closed_face([g0.v(u) for u in fv0[int(j)]], q) for q in pts) for j in bf0):
                    bad('split-nonconforming', f"facet {sorted(f)} of the result has one neighbour but does not lie on "
                        f"the boundary of the operand (neighbouring cells were split along different diagonals)")
                    return
            check_tags_same_entities(m0, m1, ident, bad, cell_map=parents)
            if isinstance(res, tuple):
                X = res[1]
                if not np.array_equal(np.asarray(X), np.arange(m0.t.shape[1], dtype=float)[parents]):
                    bad('split-x', "elementwise constant function not carried to the children")
            out.outcome(('split', kind, kind1))
        return judge
    if kind == 'quad':
        ops.append(('to_meshtri()', lambda m: m.to_meshtri(), j_split('tri', 2)))
        # only one kind of tag present (named subdomains without named boundaries, and the other way round)
        def only_subdomains(m):
            return type(m)(m.p.copy(), m.t.copy()).with_subdomains({k: np.array(v) for k, v in (m.subdomains or {}).items()})

        def only_boundaries(m):
            from ..meshspace import _copy_tag
            return type(m)(m.p.copy(), m.t.copy()).with_boundaries({k: _copy_tag(v) for k, v in (m.boundaries or {}).items()})
        for tl, strip in (('subdomains only', only_subdomains), ('boundaries only', only_boundaries)):
            for style in (None, 'x'):
                def thunk_t(m, strip=strip, style=style):
                    ms_ = strip(m)
                    return (ms_.to_meshtri() if style is None else ms_.to_meshtri(style='x')), ms_

                def j_only(m0, res, bad, out, tl=tl, nchild=(2 if style is None else 4)):
                    m1, ms_ = res
                    j_split('tri', nchild)(ms_, m1, bad, out)
                    for nm_, a, b_ in (('subdomains', ms_.subdomains, m1.subdomains), ('boundaries', ms_.boundaries, m1.boundaries)):
                        if a and not b_:
                            bad('split-tags-dropped', f"to_meshtri on a mesh with {tl}: the named {nm_} are gone")
                ops.append((f"to_meshtri({'' if style is None else 'style=x'}) with {tl}", thunk_t, j_only))
        ops.append(("to_meshtri(style='x')", lambda m: m.to_meshtri(style='x'), j_split('tri', 4)))
        if not cheap:
            ops.append(('to_meshtri(x=..)', lambda m: m.to_meshtri(x=np.arange(m.t.shape[1], dtype=float)),
                        j_split('tri', 2)))
            ops.append(("to_meshtri(x=..,style='x')",
                        lambda m: m.to_meshtri(x=np.arange(m.t.shape[1], dtype=float), style='x'), j_split('tri', 4)))
    if kind == 'hex':
        from ..topo import hex_faces_planar
        if hex_faces_planar(st.p, st.t):
            ops.append(('to_meshtet()', lambda m: m.to_meshtet(), j_split('tet', 6)))
        # (a hexahedron with non-planar faces cannot be tiled by tetrahedra of the same measure: outside the claim)
    if kind == 'wedge':
        ops.append(('to_meshtet()', lambda m: m.to_meshtet(), j_split('tet', 3)))

    # ---- extrusion ----------------------------------------------------------------------------
    if kind in ('tri', 'line') and nt <= 8 and not cheap:
        zs = np.array([0., .5, 2.])

        def line_variants():
            from skfem import MeshLine
            yield 'sorted', MeshLine(zs)
            # same points, numbering not monotone in the coordinate (as after refinement / renumbering)
            yield 'scrambled', MeshLine(np.array([[2., 0., .5]]), np.array([[1, 2], [2, 0]]))
            # same points and numbering, the elements stored in another order (not one ascending chain)
            yield 'cells-reversed', MeshLine(np.array([[0., .5, 2.]]), np.array([[1, 0], [2, 1]]))

        held = {}

        def thunk(m, which='sorted'):
            for nme, ln in line_variants():
                if nme == which:
                    held['line'] = ln
                    held['p'], held['t'] = ln.p.copy(), ln.t.copy()
                    return m * ln

        def j_ext(m0, m1, bad, out):
            ln = held.get('line')
            if ln is not None and not (np.array_equal(ln.p, held['p']) and np.array_equal(ln.t, held['t'])):
                bad('operand-mutated', "extrusion changed the arrays of the one-dimensional mesh it was multiplied with")
            kind1 = 'wedge' if kind == 'tri' else 'quad'
            if kind_of(m1) != kind1:
                bad('extrude-class', type(m1).__name__)
                return
            k0 = cell_keys(m0, kind)
            want = sorted((frozenset(q + (float(z),) for q in key for z in (zs[i], zs[i + 1]))
                           for key in k0 for i in range(len(zs) - 1)), key=lambda s: sorted(s))
            if kind == 'line':
                # MeshLine * MeshLine is a tensor mesh of the two coordinate sets
                xs = sorted({q[0] for key in k0 for q in key})
                want = sorted((frozenset({(xs[i], float(zs[j])), (xs[i + 1], float(zs[j])), (xs[i], float(zs[j + 1])),
                                          (xs[i + 1], float(zs[j + 1]))})
                               for i in range(len(xs) - 1) for j in range(len(zs) - 1)), key=lambda s: sorted(s))
            got = sorted(cell_keys(m1, kind1), key=lambda s: sorted(s))
            if got != want:
                bad('extrude-cells', "extruded cells are not the products cell x interval")
                return
            check_valid(m1, kind1, bad)
            out.outcome(('extrude', kind1, m1.t.shape[1]))
        ops.append(('*MeshLine([0,.5,2])', thunk, j_ext))
        ops.append(('*MeshLine([2,0,.5] scrambled numbering)', lambda m: thunk(m, 'scrambled'), j_ext))
        ops.append(('*MeshLine([0,.5,2] cells stored in reverse)', lambda m: thunk(m, 'cells-reversed'), j_ext))

    # ---- coordinate maps --------------------------------------------------------------------------
    def j_map(phi, tol=0.0, name='map'):
        def judge(m0, m1, bad, out):
            if type(m1) is not type(m0) or not np.array_equal(m1.t, m0.t):
                bad(name + '-connectivity', "class or connectivity changed")
                return
            want = np.array([phi(tuple(m0.p[:, v])) for v in range(m0.p.shape[1])]).T
            if want.shape != m1.p.shape or np.abs(want - m1.p).max(initial=0) > tol:
                bad(name + '-coordinates', f"coordinates differ from the transform by "
                    f"{np.abs(want - m1.p).max() if want.shape == m1.p.shape else 'shape'}")
                return
            for a, b, nm in ((m0.subdomains, m1.subdomains, 'subdomains'), (m0.boundaries, m1.boundaries, 'boundaries')):
                if mo.tag_sets(a) != mo.tag_sets(b):
                    bad(name + '-tags', f"{nm} changed although numbering is unchanged")
            out.outcome((name,))
        return judge
    if not cheap or True:
        d = [0.5, -1.25, 2.0][:dim]
        ops.append((f'translated({d})', lambda m: m.translated(tuple(d)),
                    j_map(lambda q: tuple(x + y for x, y in zip(q, d)), name='translated')))
        f = [2.0, -0.5, 1.5][:dim]
        ops.append((f'scaled({f})', lambda m: m.scaled(tuple(f)),
                    j_map(lambda q: tuple(x * y for x, y in zip(q, f)), name='scaled')))
        for ax in range(dim):
            n = [0.] * dim
            n[ax] = 1.
            pt = [0.25] * dim

            def phi(q, ax=ax):
                q = list(q)
                q[ax] = 2 * 0.25 - q[ax]
                return tuple(q)
            ops.append((f'mirrored(e{ax},point=.25)', lambda m, n=n, pt=pt: m.mirrored(tuple(n), tuple(pt)),
                        j_map(phi, tol=1e-14, name='mirrored')))
        # non-unit normal together with a point off the origin
        def phi4(q):
            q = list(q)
            q[0] = 2 * 1.0 - q[0]
            return tuple(q)
        ops.append(('mirrored(2*e0,point=e0)', lambda m: m.mirrored(tuple([2.] + [0.] * (dim - 1)), tuple([1.] + [.5] * (dim - 1))),
                    j_map(phi4, tol=1e-14, name='mirrored')))
        if dim >= 2 and not cheap:
            nn_ = np.array([3., 4.] + [0.] * (dim - 2)) / 5.

            def phi2(q):
                q = np.array(q)
                return tuple(q - 2 * np.dot(nn_, q) * nn_)
            ops.append(('mirrored((3,4))', lambda m: m.mirrored(tuple([3., 4.] + [0.] * (dim - 2))),
                        j_map(phi2, tol=1e-12, name='mirrored')))
        if not cheap:
            fs = [lambda p: p[0] + .25 * p[-1] ** 2, None, lambda p: 2 * p[2] - .5 * p[0]][:dim]
            if dim == 1:
                fs = [lambda p: p[0] * 2 + 1]

            def phi3(q):
                arr = np.array(q)[:, None]
                return tuple(float(fs[i](arr)[0]) if fs[i] is not None else q[i] for i in range(dim))
            ops.append(('morphed(f0,None,f2)', lambda m: m.morphed(*fs), j_map(phi3, name='morphed')))

    # ---- oriented ------------------------------------------------------------------------------
    if kind in ('tri', 'tet', 'line') and st.cls in mo.FIRST_ORDER:
        def j_or(m0, m1, bad, out):
            k0 = cell_keys(m0, kind)
            if cell_keys(m1, kind) != k0 or not np.array_equal(m1.p, m0.p):
                bad('oriented-cells', "oriented() changed cells or coordinates")
                return
            if kind != 'line' and (m1.orientation() != 1).any():
                bad('oriented-sign', f"orientation() after oriented(): {m1.orientation().tolist()}")
            check_tags_same_entities(m0, m1, ident, bad)
            out.outcome(('oriented', int((m0.orientation() == -1).sum()) if kind != 'line' else 0))
        if kind != 'line':
            ops.append(('oriented()', lambda m: m.oriented(), j_or))

    # ---- trace ---------------------------------------------------------------------------------
    if kind in ('tri', 'quad', 'tet', 'hex') and not cheap:
        import skfem.mesh as M
        mtype = {'tri': M.MeshLine1, 'quad': M.MeshLine1, 'tet': M.MeshTri1, 'hex': M.MeshQuad1}[kind]

        def j_trace(m0, res, bad, out):
            m1, fac = res
            want = [facet_keys(m0)[int(j)] for j in fac]
            bk = 'line' if dim == 2 else ('tri' if kind == 'tet' else 'quad')
            got = [frozenset(vkey(m1.p, v) for v in m1.t[:, c]) for c in range(m1.t.shape[1])]
            if got != want:
                bad('trace-cells', "cells of the trace mesh are not the selected facets")
            if sorted(int(j) for j in fac) != sorted(int(j) for j in m0.boundary_facets()):
                bad('trace-facets', "returned facet indices are not the selected facets")
            used = set(int(v) for v in m1.t.flatten())
            if used != set(range(m1.p.shape[1])):
                bad('trace-unused-vertices', "trace mesh has unused vertices")
            out.outcome(('trace', len(want)))
        ops.append(('trace(boundary)', lambda m: m.trace(None, mtype=mtype), j_trace))

    return ops


def _j_restrict_named(m0, res, bad, out, kind, tname):
    m1, ix = res
    keep = sorted(int(c) for c in m0.subdomains[tname])
    k0 = cell_keys(m0, kind)
    if cell_keys(m1, kind) != [k0[c] for c in keep]:
        bad('cells', f"restrict('{tname}') did not keep cells {keep}")
        return
    check_tags_same_entities(m0, m1, ident, bad, cell_map=keep)


# raw pre-processing transitions that create unused / duplicate vertices, judged with the cleanup op
def cleanup_cases(st):
    kind, nt, nv, dim = st.kind, st.nt, st.nv, st.p.shape[0]
    cases = []
    # unused vertex inserted at position i (front, middle, end)
    for i in sorted({0, nv // 2, nv}):
        p = np.insert(st.p, i, np.full(dim, 7.5) + i, axis=1)
        t = st.t + (st.t >= i)
        cases.append((f'insert-unused-vertex@{i}', p, t, 'remove_unused_nodes'))
    # duplicate vertex: cell c uses a private copy of its local vertex k
    for c in range(min(nt, 3)):
        for k in range(min(st.t.shape[0], 2)):
            v = st.t[k, c]
            if (st.t == v).sum() < 2:
                continue
            p = np.hstack((st.p, st.p[:, [v]]))
            t = st.t.copy()
            t[k, c] = nv
            cases.append((f'duplicate-vertex(cell {c},local {k})', p, t, 'remove_duplicate_nodes'))
    # fully exploded mesh
    if nt >= 2:
        p = np.hstack([st.p[:, st.t[:, c]] for c in range(nt)])
        t = np.arange(nt * st.t.shape[0]).reshape(nt, st.t.shape[0]).T
        cases.append(('exploded', p, t, 'remove_duplicate_nodes'))
    return cases


def items(tier, seed):
    return [(name,) for name in ms.seeds(seed)]


def cost(item):
    return {'K6': 20, 'K5': 15, 'H4': 20, 'W4': 10, 'Qring8': 8, 'Tring8': 8, 'Ttensor8': 8, 'TL6': 6, 'H2': 6,
            'Q4gen': 5, 'Q4par': 5}.get(item[0], 1)


def snapshot(m):
    return (m.p.tobytes(), m.t.tobytes(), repr(mo.tag_sets(m.subdomains)), repr(mo.tag_sets(m.boundaries)))


class _EmptySelection(Exception):
    pass


def run_op(st, m0, lab, thunk, judge, out, nontrivial_key):
    out.ev()
    out.transitions += 1
    sig0 = f"C18|{st.cls}|{lab.split('(')[0].split('[')[0]}|"
    case = dict(st.describe(), op=lab, tags={'s': None if st.s is None else sorted(st.s)[:5],
                                              'b': None if st.b is None else sorted(st.b)[:5]})

    rot = '|input=rotated-local-order' if any(str(h).startswith('lorder') for h in st.hist) else ''

    def bad(what, msg):
        out.violation(sig0 + what + (rot if what.startswith('split-') else ''),
                      f"{msg} [history {list(st.hist)} then {lab}]", case=case)
    snap = snapshot(m0)
    try:
        res = thunk(m0)
    except _EmptySelection:
        out.count('empty_selection_not_a_legal_input')
        return None
    except NotImplementedError:
        out.count('not_implemented:' + lab.split('(')[0])
        return None
    except Exception as e:
        bad('exception', repr(e))
        return None
    if snapshot(m0) != snap:
        bad('operand-mutated', "the operation changed its operand")
    try:
        judge(m0, res, bad, out)
    except Exception as e:
        import traceback
        out.harness_error(f"judge crashed for {lab} on {st.hist}: {traceback.format_exc()}")
    out.nt(nontrivial_key)
    return res


def work(item, tier, seed):
    name, = item
    out = Out()
    out.set_item(item)
    bd = BOUNDS[tier]
    st0 = ms.seeds(seed)[name]
    m = st0.build()
    root = ms.from_mesh(mo.with_saturated_tags(m), hist=st0.hist)
    seen = {root.key()}
    frontier = [(root, 1)]
    # caller-side admissible local vertex orders (what a file reader may deliver): level-1 roots
    if st0.kind in ('quad', 'hex', 'wedge', 'tet') and st0.nt <= 4:
        for lab, nx in ms.raw_transitions(st0, vertex_swaps=False, cell_swaps=False):
            mm = nx.build()
            if st0.kind == 'wedge':
                fs = [frozenset(int(v) for v in col) for col in mm.facets.T]
                if len(set(fs)) != len(fs):
                    # duplicate facets of prisms with rotated caps: C11's known finding; facet tags
                    # are not well defined on such a mesh
                    out.count('wedge_roots_skipped_duplicate_facets(C11 finding)')
                    continue
            r = ms.from_mesh(mo.with_saturated_tags(mm), hist=nx.hist)
            if r.key() not in seen:
                seen.add(r.key())
                frontier.append((r, 2 if st0.nt > 2 else 1))
    nsample = 0
    while frontier:
        st, level = frontier.pop(0)
        out.states += 1
        m0 = st.build()
        if m0.subdomains is None and m0.boundaries is None and st.cls in mo.FIRST_ORDER:
            m0 = mo.with_saturated_tags(m0)
            st = ms.from_mesh(m0, hist=st.hist)
        for lab, thunk, judge in ops_for(st, bd, level):
            res = run_op(st, m0, lab, thunk, judge, out, (st.key(), lab))
            if res is None:
                continue
            if nsample < 2 and lab.startswith(('restrict([0, 1', 'to_mesh')):
                out.sample({'history': list(st.hist), 'operation': lab, 'cells': st.nt}, 2)
                nsample += 1
            # successor state (first mesh in the result)
            m1 = res[0] if isinstance(res, tuple) else res
            if level < bd['depth'] and hasattr(m1, 't') and type(m1).__name__ in KIND_OF_CLASS \
                    and m1.t.shape[1] <= bd['max_cells'] and not lab.startswith(('translated', 'scaled', 'morphed', 'trace', 'mirrored((3,4))')):
                try:
                    nx = ms.from_mesh(m1, hist=st.hist + (lab,), depth=st.depth + 1)
                except Exception:
                    continue
                k = nx.key()
                if k not in seen:
                    seen.add(k)
                    frontier.append((nx, level + 1))
        # cleanup operations after raw insertions (only on untagged copies of first-level states)
        if level == 1:
            for lab, p, t, op in cleanup_cases(st0):
                stc = ms.St(st0.cls, p, t, hist=st0.hist + (lab,))
                try:
                    mc = stc.build()
                    mc = mo.with_saturated_tags(mc)
                except Exception as e:
                    out.count('cleanup_pre_state_rejected')
                    continue
                judge = j_cleanup(st0, op)
                run_op(ms.from_mesh(mc, hist=stc.hist), mc, op + '()', lambda mm, op=op: getattr(mm, op)(), judge, out,
                       (stc.key(), op))
    out.traces = out.transitions
    return out


def j_cleanup(st0, op):
    kind = st0.kind

    def judge(m0, m1, bad, out):
        k0 = cell_keys(m0, kind)
        if cell_keys(m1, kind) != k0:
            bad('cells', f"{op} changed the cells (as coordinate sets)")
            return
        if not check_valid(m1, kind, bad, hanging=False):
            return
        check_tags_same_entities(m0, m1, ident, bad)
        out.outcome((op, m0.p.shape[1] - m1.p.shape[1]))
    return judge
