"""C03 - discrete functions are globally continuous in the sense of the element.

Small patches x all numberings / cell orders / admissible local orders (within the bound) x
every conforming, non-conforming and C1 element x ALL unit coefficient vectors x all interior
facets x a facet lattice unisolvent for the trace degree; one-sided traces from
InteriorFacetBasis(side=0) and (side=1) at the same physical points.
"""
from __future__ import annotations

import itertools
import warnings

import numpy as np

from ..report import Out
from .. import meshspace as ms
from .. import catalogue as cat
from .. import meshops as mo
from ..topo import Topo, REF

ID = 'C03'
# sub-checks added after the seeded-change waves (DESIGN.md sections 5 and 6)
EXTENSIONS = [
    'library-made mesh variants; both one-sided bases must look from the two different neighbours',
    'one-sided traces evaluated by hand through gbasis (validated against InteriorFacetBasis): periodic Mesh*DG meshes and ElementTriN3 are judged; connectivity handed over as uint32 / uint64 / int16',
]
LEVEL = 'exploration'
TECHNIQUE = "small-scope exhaustive enumeration of numberings / local orders on patches x all unit coefficient vectors x unisolvent facet lattices"
LEVEL_TEXT = ("For each patch (2-8 cells: pairs, fans around an interior vertex, L-shape, ring, 2-3 tetrahedra around a face/edge, "
              "2 hexahedra) the check enumerates ALL vertex renumberings (n <= 5 vertices) or all single and double transpositions, "
              "all cell orders, and all admissible local vertex orders (all 4^k cyclic shifts of quadrilaterals, all 24^2 orders of "
              "two tetrahedra, all 24 rotations of each hexahedron) and, for every element that promises continuity, builds the two "
              "one-sided interior-facet bases with a custom quadrature = facet lattice unisolvent for the element's trace degree. "
              "Linearity reduces 'any coefficient vector' to all unit vectors, which are all evaluated; polynomial traces on "
              "straight facets reduce 'all points' to the lattice. H1: value jump; H(div): normal jump; H(curl): tangential jump; "
              "HHJ: normal-normal jump; CR / Morley / 15-parameter: jumps of the defining functionals only; C1 (Argyris everywhere, "
              "BFS / HexC1 / Quad2G on axis-aligned cells, line Hermite): gradient jump too.")
LEVEL_NOTE = ("Triangle meshes built with sort_t=False are outside the claim for elements with several DOFs per facet (excluded as "
              "the property states); on non-affine quadrilaterals/hexahedra Piola-mapped traces are still polynomial along straight "
              "edges for the lowest-order families in the catalogue. Tolerance 1e-9 * scale.")
RULE = ("case = (patch state, element); every case evaluates all N unit vectors on all interior facets. non-trivial = distinct case "
        "in which some unit vector has a non-zero one-sided trace on an interior facet (the continuity claim is not vacuous).")
ASSUMPTIONS = ["straight-sided cells; elements listed as axis-aligned-only are judged on rectangular / box patches",
               "an element whose facet basis cannot be built (ElementTriN3: loud failure) is counted, not judged"]
BOUNDS = {'quick': {'renumberings': 'all n! for n<=4 vertices, else all single transpositions + 40 double', 'local_orders':
                    'all combinations on <=2 cells (quads: <=4 cells), generators beyond'},
          'thorough': {'renumberings': 'all n! for n<=5, else all single + all double transpositions', 'local_orders':
                       'all combinations on <=2 cells (quads <= 4 cells), depth-2 generator words beyond'}}
ITEM_TIMEOUT = {'quick': 900, 'thorough': 7200}
PATCHES = {'line': ['L3', 'Lrev'], 'tri': ['T2', 'Tfan4', 'TL6'], 'quad': ['Q2', 'Q4gen', 'Q4par'], 'tet': ['K2', 'K3e'],
           'hex': ['H2'], 'wedge': []}
CONT_FAMILIES = ('H1', 'Hdiv', 'Hcurl', 'HHJ', 'CR', 'Morley', 'P15', 'C1', 'Hermite')


def axis_patch(kind):
    import skfem.mesh as M
    if kind == 'quad':
        m = M.MeshQuad1.init_tensor(np.array([0., .75, 2.]), np.array([-.5, 0., 1.5]))
        return ms.from_mesh(m, hist=('Qaxis4',))
    m = M.MeshHex1.init_tensor(np.array([0., .75, 2.]), np.array([-.5, 1.]), np.array([0., .5]))
    return ms.from_mesh(m, hist=('Haxis2',))


def entries_for(kind, tier):
    es = [e for e in cat.entries(kind, wrappers=True, pmax_line=3 if tier == 'quick' else 5,
                                 pmax_quad=3 if tier == 'quick' else 4)
          if e.family in CONT_FAMILIES and e.wrapper in (None, 'vector')]
    return es


PATCHES_THOROUGH = {'tri': ['Tring8', 'T3comp'], 'quad': ['Qmix', 'Qring8'], 'tet': ['K5'], 'hex': ['H4'], 'line': ['L2c']}


def items(tier, seed):
    its = []
    for kind, names in PATCHES.items():
        if tier == 'thorough':
            names = names + PATCHES_THOROUGH.get(kind, [])
        for ent in entries_for(kind, tier):
            if ent.name in cat.AXIS_ALIGNED_ONLY:
                its.append(('axis', ent.name))
                continue
            for n in names:
                its.append((n, ent.name))
    # periodic meshes made by the library (no facet bases there: one-sided traces are evaluated by hand through gbasis)
    for pname, pst in ms.periodic_roots(seed).items():
        if pname in ('P:tri-y', 'P:hex-z') and tier == 'quick':
            continue
        for ent in entries_for(pst.kind, tier):
            if ent.name in cat.AXIS_ALIGNED_ONLY or ent.family in ('Morley', 'P15', 'C1', 'Hermite'):
                continue        # globally defined elements need vertex-indexed geometry (loud failure of the library)
            its.append((pname, ent.name))
    return its


def cost(item):
    n, e = item
    w = {'K3e': 6, 'K2': 8, 'H2': 10, 'Q4gen': 4, 'Q4par': 4, 'Tfan4': 4, 'TL6': 3, 'axis': 5}.get(n, 1)
    return w * (8 if any(s in e for s in ('Argyris', 'HexC1', 'BFS', '15Param', 'Morley', 'Hermite', '2G', '1G')) else 1)


def perm_state(st, perm, lab):
    perm = np.array(perm)
    p = st.p[:, perm]
    inv = np.argsort(perm)
    return st.child(p=p, t=inv[st.t], op=lab)


def states_for(st0, tier, heavy):
    """Numbering / cell order / local order variants of a patch (deterministic, simplest first)."""
    kind = st0.kind
    nv, nt = st0.nv, st0.nt
    out = [st0]
    full_perm = 4 if tier == 'quick' else 5
    if heavy:
        full_perm = 3
    if nv <= full_perm:
        for perm in itertools.permutations(range(nv)):
            if list(perm) != list(range(nv)):
                out.append(perm_state(st0, perm, f"vperm{''.join(map(str, perm))}"))
    else:
        singles = list(itertools.combinations(range(nv), 2))
        if heavy:
            singles = singles[:6]
        for i, j in singles:
            perm = list(range(nv))
            perm[i], perm[j] = j, i
            out.append(perm_state(st0, perm, f"vswap({i},{j})"))
        doubles = [(a, b) for a in singles for b in singles if a < b and not set(a) & set(b)]
        if tier == 'quick' or heavy:
            step = max(1, len(doubles) // (8 if heavy else 40))
            doubles = doubles[::step][:(8 if heavy else 40)]
        for (i, j), (k, l) in doubles:
            perm = list(range(nv))
            perm[i], perm[j] = j, i
            perm[k], perm[l] = l, k
            out.append(perm_state(st0, perm, f"vswap({i},{j})({k},{l})"))
    # the same (unsorted) connectivity handed over in other integer dtypes: the constructor normalises values, not dtypes
    if kind == 'tri' and len(out) > 1:
        for dt in ('uint32', 'uint64', 'int16'):
            src = out[1 + (len(dt) % max(1, len(out) - 1))]
            out.append(src.child(op=f't.astype({dt})', kw=dict(src.kw, t_dtype=dt)))
    # cell orders
    cps = list(itertools.permutations(range(nt))) if nt <= 3 else \
        [tuple(range(nt))[::-1]] + [tuple(c if c not in (a, b) else (b if c == a else a) for c in range(nt))
                                    for a, b in itertools.combinations(range(nt), 2)]
    for cp in cps[:8 if heavy else 30]:
        if list(cp) != list(range(nt)):
            out.append(st0.child(t=st0.t[:, list(cp)], op=f"cperm{''.join(map(str, cp))}"))
    # local orders
    if kind != 'tri':
        lo_full = [tuple(range(REF[kind]['nn']))] + ms.local_orders(kind, full=True)
        limit_cells = 4 if kind == 'quad' else 2
        if nt <= limit_cells and not heavy:
            combos = itertools.product(range(len(lo_full)), repeat=nt)
            for combo in combos:
                if not any(combo):
                    continue
                t = st0.t.copy()
                for c, k in enumerate(combo):
                    t[:, c] = st0.t[list(lo_full[k]), c]
                out.append(st0.child(t=t, op='lorders' + '.'.join(map(str, combo))))
        else:
            gens = ms.local_orders(kind)
            for c in range(nt):
                for q in (lo_full[1:] if not heavy else gens):
                    t = st0.t.copy()
                    t[:, c] = st0.t[list(q), c]
                    out.append(st0.child(t=t, op=f"lorder({c},{''.join(map(str, q))})"))
            if tier == 'thorough' and not heavy:
                for (c1, q1), (c2, q2) in itertools.combinations([(c, q) for c in range(nt) for q in gens], 2):
                    if c1 == c2:
                        continue
                    t = st0.t.copy()
                    t[:, c1] = st0.t[list(q1), c1]
                    t[:, c2] = st0.t[list(q2), c2]
                    out.append(st0.child(t=t, op=f"lorder({c1},{''.join(map(str, q1))})({c2},{''.join(map(str, q2))})"))
    # library-made variants (the library's own operations must hand back meshes on which every element is conforming)
    if not heavy or st0.nt <= 4:
        m0 = st0.build()
        libs = []
        try:
            libs.append(('refined()', m0.refined()))
        except NotImplementedError:
            pass
        if kind in ('line', 'tri', 'tet'):
            libs.append(('refined([0])', m0.refined(np.array([0]))))
            if nt >= 2:
                libs.append((f'refined([0,{nt - 1}]).refined([1])', m0.refined(np.array([0, nt - 1])).refined(np.array([1]))))
        if kind == 'quad':
            libs.append(('to_meshtri()', m0.to_meshtri()))
            libs.append(("to_meshtri(style='x')", m0.to_meshtri(style='x')))
        if kind in ('tri', 'tet'):
            libs.append(('mirrored(e0)', m0.mirrored(tuple([1.] + [0.] * (st0.p.shape[0] - 1)))))
        for lab_, mm in libs:
            if mm.t.shape[1] <= (24 if not heavy else 8):
                out.append(ms.from_mesh(mm, hist=st0.hist + (lab_,)))
    # dedup on bytes
    seen, res = set(), []
    for s in out:
        k = s.key()
        if k not in seen:
            seen.add(k)
            res.append(s)
    return res


def facet_lattice(kind, deg):
    """Points on the reference facet (incl. its end points / corners) unisolvent for degree deg."""
    n = max(deg, 1) + 1
    g = np.linspace(0, 1, n + 1)            # one more than needed
    if kind == 'line':
        return np.zeros((0, 1)), np.ones(1)
    if kind in ('tri', 'quad'):
        X = g[None, :]
    elif kind == 'tet':
        X = np.array([(a, b) for a in g for b in g if a + b <= 1 + 1e-12]).T
    else:
        X = np.array([(a, b) for a in g for b in g]).T
    return X, np.ones(X.shape[1])


def work(item, tier, seed):
    name, ename = item
    out = Out()
    out.set_item(item)
    warnings.simplefilter('ignore')
    ent = cat.by_name(ename)
    heavy = any(s in ename for s in ('Argyris', 'HexC1', 'BFS', '15Param', 'Morley', 'Hermite', '2G', '1G'))
    if name.startswith('P:'):
        check_state(ms.periodic_roots(seed)[name], ent, out)
        return out
    if name == 'axis':
        st0 = axis_patch(ent.kind)
    else:
        st0 = ms.seeds(seed)[name]
    for st in states_for(st0, tier, heavy):
        check_state(st, ent, out)
    return out


class _HandBasis:
    """One-sided traces of every local function on every interior facet, evaluated by hand: the lattice point with weights
    w on the (global) vertices of the facet is the reference point  sum_i w_i * refvertex[local index of vertex i]  of each
    neighbour, and the element's gbasis is asked there cell by cell.  Mimics the few attributes check_state needs."""

    def __init__(self, m, kind, ent, X, side):
        from skfem.assembly import Dofs
        elem = ent.make()
        dofs = Dofs(m, elem)
        self.element_dofs_all = dofs.element_dofs
        self.N = int(dofs.N)
        self.Nbfun = dofs.element_dofs.shape[0]
        mapping = m._mapping()
        refp = np.asarray(elem.refdom.p, dtype=float)
        dim = refp.shape[0]
        fvl = mo.facet_vertex_lists(kind, m)
        self.find = np.array([j for j in range(m.facets.shape[1]) if m.f2t[1, j] >= 0], dtype=np.int64)
        nfac = len(self.find)
        nq = X.shape[1] if X.size else 1
        nfv = len(fvl[int(self.find[0])])
        if nfv == 1:
            Wt = np.ones((1, 1))
        elif nfv == 2:
            Wt = np.stack([1 - X[0], X[0]])
        elif nfv == 3:
            Wt = np.stack([1 - X[0] - X[1], X[0], X[1]])
        else:
            Wt = np.stack([(1 - X[0]) * (1 - X[1]), X[0] * (1 - X[1]), X[0] * X[1], (1 - X[0]) * X[1]])
        self.tind = np.array([int(m.f2t[side, j]) for j in self.find])
        self.normals = np.zeros((dim, nfac, nq))
        self.x = np.zeros((dim, nfac, nq))
        vals, grads = {}, {}
        for f, j in enumerate(self.find):
            c = int(self.tind[f])
            verts = fvl[int(j)]
            tc = [int(v) for v in m.t[:, c]]
            li = [tc.index(v) for v in verts]
            Y = refp[:, li] @ Wt                                  # (dim, nq)
            tind = np.array([c], dtype=np.int32)
            self.x[:, f, :] = np.asarray(mapping.F(Y, tind=tind))[:, 0, :]
            DF = np.asarray(mapping.DF(Y, tind=tind))[:, :, 0, :]  # (dim, dim, nq)
            if dim == 1:
                self.normals[0, f, :] = 1.0
            else:
                t1 = np.einsum('ijq,j->iq', DF, refp[:, li[1]] - refp[:, li[0]])
                if dim == 2:
                    nrm = np.stack([t1[1], -t1[0]])
                else:
                    t2 = np.einsum('ijq,j->iq', DF, refp[:, li[-1]] - refp[:, li[0]])
                    nrm = np.cross(t1, t2, axis=0)
                self.normals[:, f, :] = nrm / np.linalg.norm(nrm, axis=0)
            for i in range(self.Nbfun):
                fld = elem.gbasis(mapping, Y, i, tind=tind)[0]
                v = np.asarray(fld)
                vals[(i, f)] = v[..., 0, :] if v.shape[-2] == 1 else v[..., c, :]
                if fld.grad is not None:
                    g = np.asarray(fld.grad)
                    grads[(i, f)] = g[..., 0, :] if g.shape[-2] == 1 else g[..., c, :]
        v0 = vals[(0, 0)]
        self.V = np.zeros((self.N,) + v0.shape[:-1] + (nfac, nq))
        self.G = None
        if grads:
            g0 = grads[(0, 0)]
            self.G = np.zeros((self.N,) + g0.shape[:-1] + (nfac, nq))
        for (i, f), v in vals.items():
            k = int(self.element_dofs_all[i, self.tind[f]])
            self.V[k, ..., f, :] += v
            if self.G is not None:
                self.G[k, ..., f, :] += grads[(i, f)]
        self.nelems = nfac


def check_state(st, ent, out):
    from skfem import InteriorFacetBasis
    kind = st.kind
    dim = REF[kind]['dim']
    m = st.build()
    T = Topo(kind, m.t)
    if not T.interior_facets():
        return
    fam = ent.family
    deg = max(ent.deg, 1) + (1 if fam in ('Hdiv', 'Hcurl', 'HHJ') else 0)
    if kind in ('quad', 'hex') and fam in ('Hdiv', 'Hcurl'):
        deg += 1
    X, W = facet_lattice(kind, min(deg, 6))
    sig0 = f"C03|{ent.name}|{st.cls}|"
    case0 = dict(st.describe(), element=ent.name)
    out.ev()

    rot = '|input=rotated-local-order' if any(str(h).startswith('lorder') for h in st.hist) else ''

    def bad(what, msg):
        out.violation(sig0 + what + rot, f"{msg} [element {ent.name}, history {list(st.hist)}]", case=case0)
    if ent.kind != kind:
        out.count('element_of_another_cell_type_skipped')      # e.g. a quadrilateral element after to_meshtri()
        return
    periodic = st.cls.endswith('DG')
    hand = periodic
    if not hand:
        try:
            b0 = InteriorFacetBasis(m, ent.make(), side=0, quadrature=(X, W))
            b1 = InteriorFacetBasis(m, ent.make(), side=1, quadrature=(X, W))
        except Exception as e:
            # e.g. ElementTriN3 cannot be evaluated with per-cell point arrays: its traces are evaluated by hand instead
            out.count('facet_basis_unsupported_traces_by_hand:' + ent.name)
            hand = True
    if hand:
        try:
            b0 = _HandBasis(m, kind, ent, X, 0)
            b1 = _HandBasis(m, kind, ent, X, 1)
        except Exception as e:
            out.count(f'traces_by_hand_unsupported:{ent.name}:{type(e).__name__}')
            return
    N = b0.N
    nfac = b0.nelems
    nq = X.shape[1] if X.size else 1
    # same physical points on both sides (across a periodic seam: up to the translation of the identification)
    x0 = b0.x if hand else np.asarray(b0.global_coordinates())
    x1 = b1.x if hand else np.asarray(b1.global_coordinates())
    if periodic:
        shift = x1[:, :, :1] - x0[:, :, :1]
        if np.abs((x1 - x0) - shift).max() > 1e-12:
            bad('points-differ', "the two one-sided point sets are not translates of each other")
            return
    elif np.abs(x0 - x1).max() > 1e-12:
        bad('points-differ', "the two one-sided bases do not share their quadrature points")
        return
    n = np.asarray(b0.normals)                       # (dim, nfac, nq)
    # the two one-sided bases must really look from the two different neighbours of each facet
    for k, j in enumerate(np.asarray(b0.find)):
        cells = set(T.facet_cells[frozenset(int(v) for v in m.facets[:, j])])
        if {int(b0.tind[k]), int(b1.tind[k])} != cells or len(cells) != 2:
            bad('sides-not-the-two-neighbours', f"interior facet {int(j)} lies in cells {sorted(cells)} but side 0 / side 1 are "
                f"evaluated from cells {int(b0.tind[k])} / {int(b1.tind[k])}")
            return

    def traces(b):
        """value (and gradient) traces of every unit vector: arrays (N, comps.., nfac, nq)."""
        if hand:
            return b.V, b.G
        v0 = np.asarray(b.basis[0][0])
        V = np.zeros((N,) + v0.shape)
        g0 = b.basis[0][0].grad
        G = None if g0 is None else np.zeros((N,) + np.asarray(g0).shape)
        ed = b.element_dofs
        for j in range(b.Nbfun):
            fld = b.basis[j][0]
            val = np.asarray(fld)
            for f in range(nfac):
                V[ed[j, f], ..., f, :] += val[..., f, :]
                if G is not None:
                    G[ed[j, f], ..., f, :] += np.asarray(fld.grad)[..., f, :]
        return V, G
    V0, G0 = traces(b0)
    V1, G1 = traces(b1)
    # tie to the API observation point: interpolate of two fixed vectors equals the superposition
    for vec in (np.arange(1., N + 1), (-1.) ** np.arange(N) * (1 + np.arange(N) % 3)):
        if hand:
            break
        u0 = np.asarray(b0.interpolate(vec))
        if np.abs(u0 - np.tensordot(vec, V0, axes=(0, 0))).max() > 1e-9 * (1 + np.abs(u0).max()):
            bad('interpolate-not-superposition', "InteriorFacetBasis.interpolate(x) differs from sum x_k * trace(e_k)")
            return
    J = V0 - V1
    scale = 1 + max(np.abs(V0).max(), np.abs(V1).max())
    tol = 1e-9 * scale
    if max(np.abs(V0).max(), np.abs(V1).max()) > 1e-9:
        out.nt((st.key(), ent.name))
    mid = nq // 2 if kind in ('tri', 'quad') else None

    def report(what, arr, detail):
        # arr: (N, nfac, nq) absolute jumps
        k, f, q = np.unravel_index(np.argmax(arr), arr.shape)
        fac = int(b0.find[f])
        bad(what, f"{detail}: unit vector e_{k} jumps by {arr[k, f, q]:.3e} across interior facet {fac} "
            f"(vertices {m.facets[:, fac].tolist()}, cells {m.f2t[:, fac].tolist()}) at lattice point {q}")

    if fam in ('H1', 'C1', 'Hermite'):
        a = np.abs(J) if J.ndim == 3 else np.abs(J).max(axis=1)
        if a.max() > tol:
            report('value-jump', a, "values are not single-valued")
            return
    if fam == 'Hdiv':
        a = np.abs((J * n[None]).sum(axis=1))
        if a.max() > tol:
            report('normal-jump', a, "normal components are not single-valued")
            return
    if fam == 'Hcurl':
        jn = (J * n[None]).sum(axis=1)
        a = np.abs(J - jn[:, None] * n[None]).max(axis=1)
        if a.max() > tol:
            report('tangential-jump', a, "tangential components are not single-valued")
            return
    if fam == 'HHJ':
        a = np.abs(np.einsum('ifq,kijfq,jfq->kfq', n, J, n))
        if a.max() > tol:
            report('normal-normal-jump', a, "normal-normal components are not single-valued")
            return
    if fam == 'CR':
        # facet midpoint / centroid value == mean of the (linear) trace over the lattice
        if kind in ('tri', 'quad'):
            # linear trace: midpoint value == mean of the two end-point values
            Jm = .5 * (J[..., 0] + J[..., nq - 1])
        else:
            # linear trace on a triangular facet: centroid value == mean of the three corner values
            corners = [int(np.argmin(np.abs(X - np.array(c)[:, None]).sum(axis=0))) for c in ((0, 0), (1, 0), (0, 1))]
            Jm = J[..., corners].mean(axis=-1)
        a = np.abs(Jm)[..., None] if Jm.ndim == 2 else np.abs(Jm).max(axis=1)[..., None]
        if a.max() > tol:
            report('midpoint-jump', a, "facet-midpoint values are not single-valued")
            return
    if fam in ('Morley', 'P15'):
        ends = [0, nq - 1]
        a = np.abs(J[..., ends])
        if a.max() > tol:
            report('vertex-value-jump', a, "vertex values are not single-valued")
            return
        Jg = G0 - G1
        if nq % 2 == 1:
            dn = np.abs((Jg[..., mid] * n[None, :, :, mid]).sum(axis=1))[..., None]
            if dn.max() > 1e-8 * (1 + np.abs(G0).max()):
                report('normal-derivative-jump', dn, "normal derivatives at facet midpoints are not single-valued")
                return
        if fam == 'P15':
            a = np.abs(J[..., [mid]]) if nq % 2 == 1 else np.zeros((1, 1, 1))
            if a.max() > tol:
                report('midpoint-jump', a, "facet-midpoint values are not single-valued")
                return
            ag = np.abs(Jg[..., ends]).max(axis=1)
            if ag.max() > 1e-8 * (1 + np.abs(G0).max()):
                report('vertex-gradient-jump', ag, "vertex gradients are not single-valued")
                return
    if fam == 'Hermite':
        Jg = G0 - G1
        ag = np.abs(Jg[..., [0, nq - 1]]).max(axis=1)
        if ag.max() > 1e-8 * (1 + np.abs(G0).max()):
            report('vertex-gradient-jump', ag, "vertex gradients are not single-valued")
            return
    if fam == 'C1' and G0 is not None:
        Jg = G0 - G1
        ag = np.abs(Jg).max(axis=1) if Jg.ndim == 4 else np.abs(Jg)
        if ag.max() > 1e-8 * (1 + np.abs(G0).max()):
            report('gradient-jump', ag, "gradients are not single-valued")
            return
    out.outcome((ent.name, st.cls, N, nfac))
    if len(st.hist) == 2 and st.hist[1].startswith(('vperm', 'vswap')) and out.evals < 4:
        out.sample({'history': list(st.hist), 'element': ent.name, 'unit_vectors': int(N), 'interior_facets': int(nfac),
                    'lattice_points_per_facet': int(nq)}, 1)


def replay(rec, tier, seed):
    c = rec['case']
    st = ms.St(c['cls'], np.array(c['p']), np.array(c['t']), kw=c.get('kw') or {}, hist=tuple(c['hist']))
    out = Out()
    warnings.simplefilter('ignore')
    check_state(st, cat.by_name(c['element']), out)
    return out
