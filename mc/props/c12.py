"""C12 - uniform refinement preserves domain, conformity and named regions.

Transition relation checked on every ``refined(k)`` edge leaving every state reachable in
MeshSpace by a bounded history (raw renumbering deviations and real library operations),
with tag saturation (every bounded subset of cells / facets carried as its own tag).
"""
from __future__ import annotations

import numpy as np

from ..report import Out
from .. import meshspace as ms
from .. import meshops as mo
from ..topo import REF

ID = 'C12'
# sub-checks added after the seeded-change waves (DESIGN.md sections 5 and 6)
EXTENSIONS = [
    'sort_t=False histories; non-conforming to_meshtet results are not legal pre-states',
]
LEVEL = 'model_checking'
TECHNIQUE = "explicit-state BFS over mesh operation histories; exact transition relation on every refined(k) edge; tag saturation"
LEVEL_TEXT = ("States are meshes reached from 23 irregular seeds (all refinable cell types) by every history of length <= D over "
              "an alphabet of raw deviations (vertex / cell transpositions, local order steps) and real library operations "
              "(refined, adaptive steps, restrict, remove, mirrored, scaled, splits, conversion to the second-order class); "
              "states are deduplicated on exact bytes. From every state the edge refined(k) is taken on the real mesh "
              "carrying every bounded subset of cells and facets (interior ones included) as its own tag, and the exact "
              "(Fraction) relation is checked: validity, no hanging nodes, cell count, old vertices fixed, every child inside "
              "one parent with volumes summing exactly, subdomain tags == children of tagged parents, boundary tags == new "
              "facets lying in old tagged facets, or dropped with a logged warning where unsupported.")
LEVEL_NOTE = ("Dyadic coordinates make every midpoint exact, so geometric comparisons are exact rational; meshes are bounded "
              "(cells after refinement <= cap); prisms have no uniform refinement (NotImplementedError is accepted and "
              "counted); hexahedra with non-planar child faces skip the volume-sum clause only.")
RULE = ("state = (class, p, t, kwargs) bytes; checked transitions = refined(k) for k in K(tier) from each state with saturated "
        "tags. non-trivial = distinct (state, k) whose mesh has >= 2 cells sharing a facet and at least one tag naming a proper "
        "non-empty subset (so a wrong parent->child index map is observable).")
ASSUMPTIONS = [
    "straight-sided meshes with dyadic rational coordinates",
    "first-order line/tri/quad classes must propagate boundaries, all first-order classes must propagate subdomains; "
    "second-order classes may drop tags but only with a logged warning",
    "orientation flags of oriented boundaries are not part of the point-set claim",
]
BOUNDS = {'quick': {'history_depth': 1, 'k': [1, 2], 'max_cells_after': 260, 'raw_deviation_seeds': 'cells <= 4'},
          'thorough': {'history_depth': 2, 'k': [1, 2, 3], 'max_cells_after': 1100, 'raw_deviation_seeds': 'cells <= 8'}}
ITEM_TIMEOUT = {'quick': 900, 'thorough': 7200}
KINDS = ('line', 'tri', 'quad', 'tet', 'hex')
ORDER2 = {'MeshTri1': 'MeshTri2', 'MeshQuad1': 'MeshQuad2', 'MeshTet1': 'MeshTet2', 'MeshHex1': 'MeshHex2'}


def lib_ops(st):
    """History alphabet of real library operations: label -> callable(mesh) -> mesh."""
    ops = []
    kind, nt = st.kind, st.nt
    dim = st.p.shape[0]
    first = st.cls in mo.FIRST_ORDER
    ops.append(('refined()', lambda m: m.refined()))
    if first and kind in ('line', 'tri', 'tet'):
        ops.append(('refined([0])', lambda m: m.refined(np.array([0]))))
        if nt >= 2:
            ops.append((f'refined([{nt - 1}])', lambda m: m.refined(np.array([nt - 1]))))
            ops.append(('refined([0,1])', lambda m: m.refined(np.array([0, 1]))))
    if first and nt >= 2:
        ops.append(('restrict(even)', lambda m: m.restrict(np.arange(0, nt, 2))))
        ops.append(('remove_elements([0])', lambda m: m.remove_elements(np.array([0]))))
    if first and kind in ('tri', 'tet'):
        ops.append(('mirrored(e0).oriented()', lambda m: m.mirrored(tuple([1.] + [0.] * (dim - 1))).oriented()))
    if first:
        ops.append(('mirrored(e0)', lambda m: m.mirrored(tuple([1.] + [0.] * (dim - 1)))))
        ops.append(('scaled(2,-.5,..)', lambda m: m.scaled(tuple([2., -.5, 1.5][:dim]))))
        if kind == 'quad':
            ops.append(('to_meshtri()', lambda m: m.to_meshtri()))
            ops.append(("to_meshtri(style='x')", lambda m: m.to_meshtri(style='x')))
        if kind == 'hex':
            ops.append(('to_meshtet()', lambda m: m.to_meshtet()))
        if st.cls in ORDER2:
            import skfem.mesh as M
            ops.append((f'{ORDER2[st.cls]}.from_mesh', lambda m: getattr(M, ORDER2[st.cls]).from_mesh(m)))
    return ops


def apply_lib(st, label, fn):
    try:
        m = fn(st.build())
    except NotImplementedError:
        return None
    return ms.from_mesh(m, hist=st.hist + (label,), depth=st.depth + 1)


def depth1(st0, tier):
    """All histories of length <= 1 from a seed: [] + raw deviations (small seeds) + library ops."""
    hs = [('', None)]
    lim = 4 if tier == 'quick' else 8
    if st0.nt <= lim:
        for lab, _ in ms.raw_transitions(st0):
            hs.append(('raw', lab))
    for lab, _ in lib_ops(st0):
        hs.append(('lib', lab))
    # (meshes that carry points no cell uses are rejected by Mesh.is_valid(): they are not in the property's domain and
    # are not used as pre-states - see DESIGN.md 4.3)
    # triangle meshes for which the caller switched off per-cell vertex sorting (legal; adaptive
    # refinement and oriented() produce them): then local vertex order is real
    if st0.cls == 'MeshTri1':
        hs.append(('unsorted', ''))
        if st0.nt <= lim:
            u = unsorted_state(st0)
            for lab, _ in ms.raw_transitions(u, vertex_swaps=False, cell_swaps=False):
                hs.append(('unsorted', lab))
    return hs


def unsorted_state(st0):
    u = ms.St(st0.cls, st0.p, st0.t, kw={'sort_t': False}, hist=st0.hist + ('sort_t=False',))
    return u


def items(tier, seed):
    its = []
    for name, st in ms.seeds(seed, kinds=KINDS).items():
        for h in depth1(st, tier):
            its.append((name, h[0], h[1]))
    return its


def cost(item):
    w = {'K6': 30, 'K5': 25, 'H4': 30, 'H2': 12, 'Qring8': 6, 'Tring8': 6, 'Ttensor8': 6, 'K3e': 10, 'K2': 6,
         'K3': 6, 'TL6': 4}.get(item[0], 1)
    return w * (3 if item[1] == 'lib' else 1)


def state_of(name, how, lab, seed):
    st0 = ms.seeds(seed)[name]
    if how == '':
        return st0
    if how == 'raw':
        for l, nx in ms.raw_transitions(st0):
            if l == lab:
                return nx
        raise KeyError(lab)
    if how == 'spare':
        far = st0.p.max(axis=1, keepdims=True) + 1.0
        return ms.St(st0.cls, np.hstack((st0.p, far)), st0.t, kw=st0.kw, hist=st0.hist + ('spare trailing point',))
    if how == 'unsorted':
        u = unsorted_state(st0)
        if lab == '':
            return u
        for l, nx in ms.raw_transitions(u, vertex_swaps=False, cell_swaps=False):
            if l == lab:
                return nx
        raise KeyError(lab)
    for l, fn in lib_ops(st0):
        if l == lab:
            return apply_lib(st0, l, fn)
    raise KeyError(lab)


def work(item, tier, seed):
    name, how, lab = item
    out = Out()
    out.set_item(item)
    bd = BOUNDS[tier]
    st1 = state_of(name, how, lab, seed)
    if st1 is None:
        out.count('history_op_not_supported')
        return out

    def expand(st):
        for l, fn in lib_ops(st):
            nx = apply_lib(st, l, fn)
            if nx is not None and nx.nt * 2 ** REF[nx.kind]['dim'] <= bd['max_cells_after']:
                yield (l, nx)

    extra = bd['history_depth'] - 1
    for evn in ms.bfs([(st1, extra)], expand, 0):
        if evn[0] == 'edge':
            out.transitions += 1
            continue
        if evn[0] != 'state':
            continue
        st = evn[1]
        out.states += 1
        check_state(st, bd, out)
    out.traces = out.transitions
    return out


def check_state(st, bd, out):
    if any(str(h).startswith('lorder') for h in st.hist) and 'to_meshtet()' in st.hist:
        # to_meshtet() of a hexahedral mesh with a rotated local order is non-conforming (known finding of C18):
        # such a mesh is not a legal pre-state of the refinement relation
        out.count('pre_states_skipped_nonconforming_to_meshtet(C18 finding)')
        return
    kind = st.kind
    dim = REF[kind]['dim']
    for k in bd['k']:
        if st.nt * 2 ** (dim * k) > bd['max_cells_after']:
            continue
        m = st.build()
        try:
            m0 = mo.with_saturated_tags(m)
        except Exception as e:
            out.violation(f"C12|{st.cls}|tagging-exception", repr(e), case=st.describe())
            return
        out.ev()
        out.transitions += 1
        sig0 = f"C12|{st.cls}|refined(int)|"
        case = dict(st.describe(), k=k)

        def bad(what, msg):
            out.violation(sig0 + what, f"{msg} [history {list(st.hist)} then refined({k})]", case=case)
        dig = (m0.p.tobytes(), m0.t.tobytes(), repr(mo.tag_sets(m0.subdomains)), repr(mo.tag_sets(m0.boundaries)))
        try:
            with mo.LogCapture() as lc:
                m1 = m0.refined(k)
        except NotImplementedError:
            out.count('refined_not_implemented:' + st.cls)
            return
        except Exception as e:
            bad('exception', repr(e))
            continue
        if (m0.p.tobytes(), m0.t.tobytes(), repr(mo.tag_sets(m0.subdomains)), repr(mo.tag_sets(m0.boundaries))) != dig:
            bad('operand-mutated', "refined() changed its operand")
        mo.check_refinement('C12', kind, m0, m1, lc.records, bad, out, uniform_k=k)
        shared = st.nt >= 2
        if shared:
            out.nt((st.key(), k))
        out.outcome((st.cls, k, m1.t.shape[1]))
        if out.evals in (1, 25):
            out.sample({'history': list(st.hist), 'then': f'refined({k})', 'class': st.cls, 'cells_before': st.nt,
                        'cells_after': int(m1.t.shape[1]), 'tags': len(m0.subdomains) + len(m0.boundaries)}, 2)


def replay(rec, tier, seed):
    c = rec['case']
    st = ms.St(c['cls'], np.array(c['p']), np.array(c['t']), kw=c.get('kw') or {}, hist=tuple(c['hist']))
    out = Out()
    bd = dict(BOUNDS['thorough'])
    bd['k'] = [c['k']]
    check_state(st, bd, out)
    return out
