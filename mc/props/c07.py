"""C07 - DOF lookup returns exactly the DOFs that control the selected entities.

Mesh states x catalogue x bounded-exhaustive selections of facets / cells / vertices x every
equivalent way of naming the selection x name filters, against the closure model built on
the numbering-free sharing model of C04; plus the trace consequence on facet lattices.
"""
from __future__ import annotations

import itertools
import warnings

import numpy as np

from ..report import Out
from .. import meshspace as ms
from .. import meshops as mo
from .. import catalogue as cat
from ..topo import Topo, REF
from .c04 import model_keys

ID = 'C07'
# sub-checks added after the seeded-change waves (DESIGN.md sections 5 and 6)
EXTENSIONS = [
    'chained filters, by-kind dictionaries of filtered views',
    'skip= with every naming form incl. dicts; unions of views; bare-string vs list names; names as tuple / set / frozenset; complement on restricted bases; coordinate-tuple form 2^22 from the origin; flatten() names each DOF once',
]
LEVEL = 'exploration'
TECHNIQUE = "small-scope exhaustive enumeration (mesh states x catalogue x entity subsets x selector forms x name filters) vs closure model"
LEVEL_TEXT = ("For every seed mesh (plus renumbered / locally reordered / refined variants) and every catalogue element incl. vector, "
              "DG and composite wrappers: every single facet, all facet pairs (bounded), boundary, interior and saturated tags; every "
              "cell subset of size <= 2 plus tags; every vertex subset of size <= 2 - each named in every equivalent form (int, "
              "int32/int64 arrays, predicate on midpoints, tag name, list / tuple / set mixing forms, deprecated dict) and combined "
              "with every name filter (skip, keep, drop, all(names), .nodal/.facet/.edge/.interior). Oracle: closure over "
              "sub-entities computed from the set topology and the element's per-entity counts, DOF names from the documented "
              "local order; all forms must return the same set; get_dofs() == closure of single-neighbour facets; complement_dofs "
              "== set complement. Consequence: for conforming families the trace (value / normal / tangential part) of every "
              "basis function whose DOF is NOT returned vanishes on the selected facets at all facet quadrature points.")
LEVEL_NOTE = ("DOF-name model assumes the element lists dofnames in its local basis order (vertex, edge, facet, interior), as "
              "ElementComposite and ElementVector construct them; trace consequence judged only for H1 / H(div) / H(curl) families "
              "(entity-attached DOFs), tolerance 1e-10.")
RULE = ("case = (mesh state, element, selection, selector form, name filter). non-trivial = distinct (state, element, selection) "
        "whose expected DOF set is neither empty nor all DOFs.")
ASSUMPTIONS = ["manifold meshes; prisms have no facet bases (trace consequence skipped there)",
               "predicate selectors are built from exact midpoints of the selected entities"]
BOUNDS = {'quick': {'facet_pairs': 12, 'states': 'seed + 3 raw variants + refined() if cells <= 4'},
          'thorough': {'facet_pairs': 60, 'states': 'seed + all raw depth-1 variants (<= 4 cells) + refined()'}}
ITEM_TIMEOUT = {'quick': 900, 'thorough': 7200}


def states_for(name, seed, tier):
    st0 = ms.seeds(seed)[name]
    out = [st0]
    raws = list(ms.raw_transitions(st0, max_vertex_swaps=1 if tier == 'quick' else None))
    if tier == 'quick':
        # one vertex swap, one cell swap, first two local-order steps
        pick = []
        for pref in ('vswap', 'cswap', 'lorder'):
            pick += [r for r in raws if r[0].startswith(pref)][:2 if pref == 'lorder' else 1]
        raws = pick
    elif st0.nt > 4:
        raws = raws[:10]
    out += [nx for _, nx in raws]
    if st0.nt <= 4:
        try:
            out.append(ms.from_mesh(st0.build().refined(), hist=st0.hist + ('refined()',)))
        except NotImplementedError:
            pass
    return out


def items(tier, seed):
    its = []
    for name, st in ms.seeds(seed).items():
        for ent in cat.entries(st.kind):
            its.append((name, ent.name))
    return its


def cost(item):
    n, e = item
    w = {'H4': 8, 'K6': 6, 'K5': 5, 'W4': 3, 'H2': 4, 'Qring8': 3, 'Tring8': 3, 'Ttensor8': 3, 'K3e': 2}.get(n, 1)
    return w * (6 if any(s in e for s in ('Argyris', 'HexC1', 'BFS', '15Param', 'Morley', 'Hermite')) else 1)


def name_of_key(elem, key, dim):
    """DOF name of a sharing-model key (documented local order vertex, edge, facet, interior)."""
    n_nodal = elem.nodal_dofs
    n_edge = elem.edge_dofs if (dim == 3 and getattr(elem, 'edge_dofs', 0) > 0) else 0
    n_facet = elem.facet_dofs if (dim >= 2 and elem.facet_dofs > 0) else 0
    what, _, s = key
    if what == 'v':
        return elem.dofnames[s]
    if what == 'e':
        return elem.dofnames[n_nodal + s]
    if what == 'f':
        return elem.dofnames[n_nodal + n_edge + s]
    return elem.dofnames[n_nodal + n_edge + n_facet + s]


def work(item, tier, seed):
    name, ename = item
    out = Out()
    out.set_item(item)
    warnings.simplefilter('ignore')
    ent = cat.by_name(ename)
    if ent.family == 'unclassified':
        out.count('unclassified:' + ename)
        out.ev()
        return out
    for st in states_for(name, seed, tier):
        check_state(st, ent, tier, out)
    return out


def check_state(st, ent, tier, out):
    from skfem import CellBasis, FacetBasis
    kind = st.kind
    dim = REF[kind]['dim']
    m0 = st.build()
    if kind == 'wedge':
        fs = [frozenset(int(v) for v in col) for col in m0.facets.T]
        if len(set(fs)) != len(fs):
            return
    m = mo.with_saturated_tags(m0, sub_full_upto=3, facet_full_upto=0)
    T = Topo(kind, m.t)
    if any(len(cs) > 2 for cs in T.facet_cells.values()):
        return
    elem = ent.make()
    try:
        b = CellBasis(m, elem, intorder=1)
    except Exception as e:
        out.count('basis_unsupported:' + ent.name)
        return
    keys = model_keys(T, kind, b.elem, dim)
    ed = b.element_dofs
    k2d = {}
    for c in range(T.nt):
        for l, key in enumerate(keys[c]):
            k2d[key] = int(ed[l, c])
    N = b.N
    dname = {d: name_of_key(b.elem, key, dim) for key, d in k2d.items()}
    dkind = {d: key[0] for key, d in k2d.items()}
    allnames = list(dict.fromkeys(b.elem.dofnames))
    facets = m.facets
    nf = facets.shape[1]
    fsets = [frozenset(int(v) for v in facets[:, j]) for j in range(nf)]
    sig0 = f"C07|{ent.name}|{st.cls}|"
    case0 = dict(st.describe(), element=ent.name)

    def bad(what, msg, **extra):
        out.violation(sig0 + what, f"{msg} [element {ent.name}, history {list(st.hist)}]", case=dict(case0, **extra))

    def closure_facets(F):
        want = set()
        for j in F:
            f = fsets[j]
            for key, d in k2d.items():
                w, e, s = key
                if (w == 'f' and e == f) or (w == 'v' and e in f) or (w == 'e' and e <= f):
                    want.add(d)
        return want

    def closure_cells(C):
        want = set()
        for c in C:
            want |= {int(x) for x in ed[:, c]}
        return want

    def closure_nodes(V):
        return {d for key, d in k2d.items() if key[0] == 'v' and key[1] in V}

    def filt(S, names, keep=True):
        return {d for d in S if (dname[d] in names) == keep}

    def check_view(view, want, label, full=True):
        out.ev()
        try:
            flat = np.asarray(view.flatten())
            got = set(int(x) for x in flat)
        except Exception as e:
            bad('exception', f"{label}: flatten raised {e!r}", selection=label)
            return False
        if len(flat) != len(got) or flat.ndim != 1 or not np.issubdtype(flat.dtype, np.integer):
            bad('dof-array', f"{label}: flatten() returned shape {flat.shape} dtype {flat.dtype} with {len(flat) - len(got)} repeated "
                f"entries (an index array naming each DOF once is what condense / enforce / x[D] = ... consume)", selection=label)
            return False
        if got != want:
            bad('dof-set', f"{label}: returned {sorted(got)[:12]}{'..' if len(got) > 12 else ''} expected "
                f"{sorted(want)[:12]}{'..' if len(want) > 12 else ''} (extra {sorted(got - want)[:5]}, missing "
                f"{sorted(want - got)[:5]})", selection=label)
            return False
        if not full:
            return True
        # name filters
        tests = [[n] for n in allnames][:6]
        if len(allnames) >= 2:
            tests.append(allnames[:2])
            tests.append([allnames[0], allnames[-1]])
        for names in tests:
            out.ev()
            try:
                k = set(int(x) for x in view.keep(names).flatten())
                d = set(int(x) for x in view.drop(names).flatten())
                a = set(int(x) for x in view.all(names))
                # the names as other collections (tuple, set, frozenset) mean the same as the list
                for coll in (tuple(names), set(names), frozenset(names)):
                    kc = set(int(x) for x in view.keep(coll).flatten())
                    dc = set(int(x) for x in view.drop(coll).flatten())
                    if kc != k or dc != d:
                        bad('name-collection', f"{label}: keep/drop({type(coll).__name__} of {names}) differ from the list form "
                            f"(keep {len(kc)} vs {len(k)}, drop {len(dc)} vs {len(d)} DOFs)", selection=label, names=names)
                        return False
                if len(names) == 1:
                    # a single name given as a bare string means that name (not every name containing it)
                    ks = set(int(x) for x in view.keep(names[0]).flatten())
                    ds = set(int(x) for x in view.drop(names[0]).flatten())
                    as_ = set(int(x) for x in view.all(names[0]))
                    if ks != k or ds != d or as_ != a:
                        bad('bare-string-name', f"{label}: keep/drop/all('{names[0]}') as a bare string differ from the one-element list "
                            f"form (drop: {sorted(ds)[:8]} vs {sorted(d)[:8]})", selection=label, names=names)
                        return False
            except Exception as e:
                bad('filter-exception', f"{label}: keep/drop/all({names}) raised {e!r}", selection=label)
                return False
            wk = filt(want, names, True)
            if k != wk or a != wk:
                bad('keep', f"{label}: keep/all({names}) returned {sorted(k)[:10]} / {sorted(a)[:10]} expected {sorted(wk)[:10]}",
                    selection=label, names=names)
                return False
            if d != filt(want, names, False):
                bad('drop', f"{label}: drop({names}) returned {sorted(d)[:10]} expected {sorted(filt(want, names, False))[:10]}",
                    selection=label, names=names)
                return False
        # chained filters and by-kind dictionaries of filtered views
        if len(allnames) >= 2:
            chains = [([allnames[0]], [allnames[-1]]), ([allnames[-1]], allnames[:2]), (allnames[:1], allnames[:1])]
            nodal_names = list(dict.fromkeys(b.elem.dofnames[:b.elem.nodal_dofs]))
            if nodal_names and len(nodal_names) < len(allnames):
                rest = [n_ for n_ in allnames if n_ not in nodal_names]
                chains.append((nodal_names, [allnames[0], rest[-1]]))
                chains.append((rest, nodal_names[:1]))
            for n1, n2 in chains:
                out.ev()
                try:
                    base_drop = view.drop(n1)
                    base_keep = view.keep(n1)
                    res = {
                        'drop.keep': (base_drop.keep(n2), filt(filt(want, n1, False), n2, True)),
                        'drop.drop': (base_drop.drop(n2), filt(filt(want, n1, False), n2, False)),
                        'keep.drop': (base_keep.drop(n2), filt(filt(want, n1, True), n2, False)),
                        'keep.keep': (base_keep.keep(n2), filt(filt(want, n1, True), n2, True)),
                    }
                    for cl, (vw, wn) in res.items():
                        g = set(int(x) for x in vw.flatten())
                        if g != wn:
                            bad('chained-filter', f"{label}: {cl.split('.')[0]}({n1}).{cl.split('.')[1]}({n2}) returned "
                                f"{sorted(g)[:10]} expected {sorted(wn)[:10]}", selection=label, names=[n1, n2])
                            return False
                        if not dicts_ok(vw, wn, f"{label} after {cl.split('.')[0]}({n1}).{cl.split('.')[1]}({n2})"):
                            return False
                except Exception as e:
                    bad('filter-exception', f"{label}: chained filter {n1}/{n2} raised {e!r}", selection=label)
                    return False
        return dicts_ok(view, want, label)

    def dicts_ok(view, want, label):
        try:
            for attr, kd in (('nodal', 'v'), ('facet', 'f'), ('edge', 'e'), ('interior', 'i')):
                dct = getattr(view, attr)
                got_kind = {}
                for nme, arr in dct.items():
                    got_kind.setdefault(nme, set()).update(int(x) for x in np.asarray(arr).flatten())
                want_kind = {}
                for dd in want:
                    if dkind[dd] == kd:
                        want_kind.setdefault(dname[dd], set()).add(dd)
                got_kind = {k_: v for k_, v in got_kind.items() if v}
                out.ev()
                if got_kind != want_kind:
                    bad('by-name-dict', f"{label}: .{attr} gives {{{', '.join(f'{k_}: {sorted(v)[:6]}' for k_, v in got_kind.items())}}} "
                        f"expected {{{', '.join(f'{k_}: {sorted(v)[:6]}' for k_, v in want_kind.items())}}}", selection=label)
                    return False
        except Exception as e:
            bad('filter-exception', f"{label}: by-kind dictionary raised {e!r}", selection=label)
            return False
        return True

    # ------------------------------------------------------------------ facets
    bd = BOUNDS[tier]
    fsel = [(j,) for j in range(nf)]
    pairs = list(itertools.combinations(range(nf), 2))
    if len(pairs) > bd['facet_pairs']:
        stp = len(pairs) / bd['facet_pairs']
        pairs = [pairs[int(i * stp)] for i in range(bd['facet_pairs'])]
    fsel += pairs
    bf = tuple(int(j) for j in m.boundary_facets())
    intf = tuple(j for j in range(nf) if j not in bf)
    fsel += [bf] + ([intf] if intf else [])
    midf = m.p[:, facets].mean(axis=1)
    nsel = 0
    for F in fsel:
        want = closure_facets(F)
        Fa = np.array(F, dtype=np.int32)
        if 0 < len(want) < N:
            out.nt((st.key(), ent.name, 'f', F))
        forms = [('int32', Fa), ('int64', Fa.astype(np.int64)[::-1].copy())]
        if len(F) == 1:
            forms.append(('int', int(F[0])))
        pts = midf[:, list(F)]

        def pred(x, pts=pts):
            return (np.abs(x[:, :, None] - pts[:, None, :]).max(axis=0) < 1e-12).any(axis=1)
        forms.append(('predicate', pred))
        tn = mo.tagname('b', F)
        if m.boundaries is not None and tn in m.boundaries:
            forms.append(('tag', tn))
        if F == bf:
            forms.append(('None', None))
            forms.append(('tag', 'bBND'))
        if len(F) == 2:
            forms.append(('list[int,array]', [int(F[0]), np.array([F[1]], dtype=np.int32)]))
            forms.append(('tuple[array,array]', (np.array([F[0]]), np.array([F[1]]))))
            t1, t2 = mo.tagname('b', (F[0],)), mo.tagname('b', (F[1],))
            if t1 in m.boundaries and t2 in m.boundaries:
                forms.append(('set{tags}', {t1, t2}))
                forms.append(('list[tag,pred]', [t1, (lambda x, q=midf[:, [F[1]]]: np.abs(x - q).max(axis=0) < 1e-12)]))
        for k, (fl, sel) in enumerate(forms):
            label = f"facets={list(F)} as {fl}"
            try:
                view = b.get_dofs(sel) if fl != 'None' else b.get_dofs()
            except Exception as e:
                bad('exception', f"{label}: get_dofs raised {e!r}", selection=label)
                continue
            ok = check_view(view, want, label, full=(k == 0 and nsel % 3 == 0))
            if not ok:
                break
            # skip= together with every naming form (the deprecated collections included)
            if k > 0 and allnames and fl != 'None':
                nm_ = [allnames[-1]]
                out.ev()
                try:
                    g = set(int(x) for x in b.get_dofs(sel, skip=nm_).flatten())
                    if g != filt(want, nm_, False):
                        bad('skip', f"{label}: skip={nm_} returned {sorted(g)[:10]} expected {sorted(filt(want, nm_, False))[:10]}",
                            selection=label, names=nm_)
                        break
                except Exception as e:
                    bad('filter-exception', f"{label}: skip={nm_} raised {e!r}", selection=label)
                    break
            # merging two views (| and the deprecated +): the union of the two DOF sets, interior DOFs included
            if k == 0 and nsel % 3 == 0:
                out.ev()
                try:
                    cl_ = (T.nt - 1,)
                    v2 = b.get_dofs(elements=np.array(cl_, dtype=np.int32))
                    wu = want | closure_cells(cl_)
                    for opn, mv in (('|', view | v2), ('+', view + v2), ('| reversed', v2 | view)):
                        g = set(int(x) for x in mv.flatten())
                        if g != wu:
                            bad('view-union', f"{label} {opn} get_dofs(elements={list(cl_)}) returned {sorted(g)[:12]} expected the "
                                f"union {sorted(wu)[:12]}", selection=label)
                            break
                        if not dicts_ok(mv, wu, f"{label} {opn} elements={list(cl_)}"):
                            break
                except Exception as e:
                    bad('filter-exception', f"{label}: merging views raised {e!r}", selection=label)
            # skip= at query time
            if k == 0 and allnames:
                for names in ([allnames[0]], [allnames[-1]]):
                    out.ev()
                    try:
                        g = set(int(x) for x in b.get_dofs(sel, skip=names).flatten())
                        gs = set(int(x) for x in b.get_dofs(sel, skip=names[0]).flatten())
                    except Exception as e:
                        bad('filter-exception', f"{label}: skip={names} raised {e!r}", selection=label)
                        break
                    if gs != g:
                        bad('bare-string-name', f"{label}: skip='{names[0]}' as a bare string returned {sorted(gs)[:8]}, as a list "
                            f"{sorted(g)[:8]}", selection=label, names=names)
                        break
                    if g != filt(want, names, False):
                        bad('skip', f"{label}: skip={names} returned {sorted(g)[:10]} expected "
                            f"{sorted(filt(want, names, False))[:10]}", selection=label, names=names)
                        break
                    sv = b.get_dofs(sel, skip=names)
                    if not dicts_ok(sv, filt(want, names, False), f"{label} with skip={names}"):
                        break
                    if len(allnames) >= 2:
                        n2 = [allnames[0], allnames[-1]]
                        g2 = set(int(x) for x in sv.keep(n2).flatten())
                        w2 = filt(filt(want, names, False), n2, True)
                        out.ev()
                        if g2 != w2:
                            bad('chained-filter', f"{label}: skip={names} then keep({n2}) returned {sorted(g2)[:10]} expected "
                                f"{sorted(w2)[:10]}", selection=label, names=[names, n2])
                            break
        nsel += 1
        # deprecated dict form
        if len(F) == 2 and nsel % 5 == 0:
            try:
                dd = b.get_dofs({'a': np.array([F[0]], dtype=np.int32), 'b': np.array([F[1]], dtype=np.int32)})
                if allnames:
                    nm_ = [allnames[-1]]
                    ds = b.get_dofs({'a': np.array([F[0]], dtype=np.int32), 'b': np.array([F[1]], dtype=np.int32)}, skip=nm_)
                    if set(int(x) for x in ds['a'].flatten()) != filt(closure_facets((F[0],)), nm_, False) or \
                            set(int(x) for x in ds['b'].flatten()) != filt(closure_facets((F[1],)), nm_, False):
                        bad('dict-form-skip', f"facets dict form for {list(F)} with skip={nm_} differs from the filtered single-facet "
                            f"queries")
                if set(int(x) for x in dd['a'].flatten()) != closure_facets((F[0],)) or \
                        set(int(x) for x in dd['b'].flatten()) != closure_facets((F[1],)):
                    bad('dict-form', f"facets dict form for {list(F)} differs from the single-facet queries")
                comp = set(int(x) for x in b.complement_dofs(dd))
                if comp != set(range(N)) - want:
                    bad('complement', f"complement_dofs(dict) for facets {list(F)} is not the set complement")
            except Exception as e:
                bad('exception', f"dict form for facets {list(F)} raised {e!r}")
    # complement of a view
    out.ev()
    try:
        v = b.get_dofs()
        comp = set(int(x) for x in b.complement_dofs(v))
        if comp != set(range(N)) - closure_facets(bf):
            bad('complement', "complement_dofs(get_dofs()) is not the set complement of the boundary DOFs")
    except Exception as e:
        bad('exception', f"complement_dofs raised {e!r}")
    # ... asked from a basis that integrates only part of the mesh (facet basis, cell subset): still relative to 0..N-1
    if kind != 'wedge':
        try:
            from skfem import FacetBasis
            others = [('CellBasis(elements=[0])', CellBasis(m, ent.make(), elements=np.array([0], dtype=np.int32), intorder=1))]
            try:
                others.append(('FacetBasis(facets=[0])', FacetBasis(m, ent.make(), facets=np.array([0], dtype=np.int32), intorder=1)))
            except Exception:
                pass
            for ol, ob in others:
                out.ev()
                v = ob.get_dofs(np.array([0], dtype=np.int32))
                comp = set(int(x) for x in ob.complement_dofs(v))
                if comp != set(range(N)) - closure_facets((0,)):
                    bad('complement', f"{ol}.complement_dofs(get_dofs([0])) is not the complement in 0..N-1 (returned {len(comp)} of "
                        f"{N - len(closure_facets((0,)))} DOFs)")
                    break
        except Exception as e:
            bad('exception', f"complement_dofs on a restricted basis raised {e!r}")

    # ------------------------------------------------------------------ cells
    csel = [(c,) for c in range(T.nt)] + list(itertools.combinations(range(T.nt), 2))[:10]
    midc = m.p[:, m.t[:REF[kind]['nn']]].mean(axis=1)
    for C in csel:
        want = closure_cells(C)
        Ca = np.array(C, dtype=np.int32)
        if 0 < len(want) < N:
            out.nt((st.key(), ent.name, 'c', C))
        pts = midc[:, list(C)]
        forms = [('int32', Ca), ('int64', Ca.astype(np.int64)),
                 ('predicate', lambda x, pts=pts: (np.abs(x[:, :, None] - pts[:, None, :]).max(axis=0) < 1e-12).any(axis=1))]
        if len(C) == 1:
            forms.append(('int', int(C[0])))
        tn = mo.tagname('s', C)
        if tn in m.subdomains:
            forms.append(('tag', tn))
        if len(C) == 2:
            forms.append(('list[int,array]', [int(C[0]), np.array([C[1]])]))
            t1, t2 = mo.tagname('s', (C[0],)), mo.tagname('s', (C[1],))
            if t1 in m.subdomains and t2 in m.subdomains:
                forms.append(('set{tags}', {t1, t2}))
                forms.append(('tuple[tag,array]', (t1, np.array([C[1]]))))
        for k, (fl, sel) in enumerate(forms):
            label = f"elements={list(C)} as {fl}"
            try:
                view = b.get_dofs(elements=sel)
            except Exception as e:
                bad('exception', f"{label}: get_dofs raised {e!r}", selection=label)
                continue
            if not check_view(view, want, label, full=(k == 0)):
                break
    # ------------------------------------------------------------------ vertices
    verts = T.vertices
    vsel = [(v,) for v in verts[:8]] + list(itertools.combinations(verts[:5], 2))[:6]
    for V in vsel:
        want = closure_nodes(set(V))
        forms = [('int32', np.array(V, dtype=np.int32)), ('int64', np.array(V, dtype=np.int64))]
        if len(V) == 1:
            forms.append(('coordinate-tuple', tuple(float(x) for x in m.p[:, V[0]])))
        forms.append(('predicate', lambda x, pts=m.p[:, list(V)]: (np.abs(x[:, :, None] - pts[:, None, :]).max(axis=0) < 1e-12)
                      .any(axis=1)))
        if len(V) == 2:
            forms.append(('list[array,array]', [np.array([V[0]]), np.array([V[1]])]))
        for k, (fl, sel) in enumerate(forms):
            label = f"nodes={list(V)} as {fl}"
            try:
                view = b.get_dofs(nodes=sel)
            except Exception as e:
                bad('exception', f"{label}: get_dofs raised {e!r}", selection=label)
                continue
            if not check_view(view, want, label, full=(k == 0 and b.elem.nodal_dofs > 0)):
                break
    # the coordinate-tuple form names ONE vertex also far from the origin (length unit of a map projection: exact translation
    # by powers of two, so every coordinate stays exactly representable)
    if len(st.hist) == 1:
        try:
            sh = tuple([2.0 ** 19, 2.0 ** 22, 2.0 ** 20][:m.p.shape[0]])
            mf = m.translated(sh)
            try:
                bfar = CellBasis(mf, ent.make(), intorder=1)
            except Exception:
                # globally defined elements are badly conditioned this far from the origin: not a DOF-lookup matter
                out.count('far_translated_basis_unsupported:' + ent.name)
                bfar = None
            for v in (verts[:4] if bfar is not None else ()):
                out.ev()
                got = set(int(x) for x in bfar.get_dofs(nodes=tuple(float(x) for x in mf.p[:, v])).flatten())
                if got != closure_nodes({v}):
                    bad('coordinate-tuple-far', f"get_dofs(nodes=<coordinates of vertex {v}>) on the mesh translated by {sh} returned "
                        f"{len(got)} DOFs, expected the {len(closure_nodes({v}))} DOFs at that vertex")
                    break
        except Exception as e:
            bad('exception', f"coordinate-tuple form on the translated mesh raised {e!r}")
    out.outcome((ent.name, st.cls, N))
    if len(st.hist) == 1 and ent.name in ('ElementTriP2', 'ElementTetCCR', 'ElementQuad2', 'Composite(TetN1*TetRT1)'):
        out.sample({'history': list(st.hist), 'element': ent.name, 'facet_selections': len(fsel), 'cell_selections': len(csel),
                    'vertex_selections': len(vsel)}, 2)

    # ------------------------------------------------------------------ trace consequence
    fam = ent.family
    if kind == 'wedge' or fam not in ('H1', 'Hdiv', 'Hcurl') or ent.wrapper in ('dg', 'composite'):
        return
    if ent.name in cat.AXIS_ALIGNED_ONLY:
        # physical-space tensor polynomials: conforming on axis-aligned cells only (none among the seeds)
        out.count('trace_consequence_skipped_axis_aligned_only:' + ent.name)
        return
    try:
        trace_consequence(m, ent, b, closure_facets, fsel, bad, out, st)
    except NotImplementedError:
        out.count('facet_basis_unsupported:' + ent.name)


def trace_consequence(m, ent, b, closure_facets, fsel, bad, out, st):
    from skfem import FacetBasis
    dim = m.p.shape[0]
    sel = [F for F in fsel if len(F) == 1][:10] + [F for F in fsel if len(F) == 2][:4]
    for F in sel:
        Fa = np.array(F, dtype=np.int32)
        try:
            fb = FacetBasis(m, ent.make(), facets=Fa, intorder=4)
        except Exception:
            out.count('facet_basis_unsupported:' + ent.name)
            return
        want = closure_facets(F)
        n = fb.normals                      # (dim, nfacets, nq)
        ed = fb.element_dofs                # (Nbfun, nfacets)
        for j in range(fb.Nbfun):
            val = np.asarray(fb.basis[j][0])
            if val.ndim == 2:
                tr = np.abs(val)
            elif ent.family == 'Hdiv':
                tr = np.abs((val * n).sum(axis=0))
            elif ent.family == 'Hcurl':
                un = (val * n).sum(axis=0)
                tr = np.abs(val - un[None] * n).max(axis=0)
            else:
                tr = np.abs(val).reshape((-1,) + val.shape[-2:]).max(axis=0)
            nz = tr.max(axis=1) > 1e-10
            for k in np.nonzero(nz)[0]:
                d = int(ed[j, k])
                out.ev()
                if d not in want:
                    bad('trace-depends-on-unreturned-dof', f"the trace on facet {int(Fa[k])} of the basis function of DOF {d} is "
                        f"nonzero ({tr[k].max():.3e}) but get_dofs(facets={list(F)}) does not return it",
                        selection=f"facets={list(F)}")
                    return


def replay(rec, tier, seed):
    c = rec['case']
    st = ms.St(c['cls'], np.array(c['p']), np.array(c['t']), kw=c.get('kw') or {}, hist=tuple(c['hist']))
    out = Out()
    warnings.simplefilter('ignore')
    check_state(st, cat.by_name(c['element']), 'quick', out)
    return out
