"""C15 - no hidden state: history-independent results, operands never mutated.

Explicit-state BFS over operation histories on a shared pool of real objects (meshes, element
objects incl. the stateful ones, mappings, forms, solver objects).  Differential oracle: the
observation of an operation after history h on the pool == its observation on freshly built
equal objects; digests of all pooled arrays unchanged by every operation that returns a new
object.
"""
from __future__ import annotations

import hashlib
import itertools
import os
import tempfile
import warnings

import numpy as np

from ..report import Out
from .. import meshspace as ms

ID = 'C15'
# sub-checks added after the seeded-change waves (DESIGN.md sections 5 and 6)
EXTENSIONS = [
    '118 -> 140 operations: tagged meshes of every cell type, oriented / second-order operands, kept condense / mpc systems, kept bases (results stay intact), orientation-dependent elements on equal-sized meshes, meshes sharing the vertex array, point sets 2^-27 apart or sharing entries, solve-time options, a far-from-converged solver, one threaded form for two local shapes',
]
LEVEL = 'model_checking'
TECHNIQUE = "explicit-state BFS over public-API operation histories on a shared object pool; differential oracle pool-vs-fresh; operand digests"
LEVEL_TEXT = ("States = cache contents of a pool of real objects (two triangle meshes with equal cell count and different geometry, "
              "one with a different cell count, a general quadrilateral mesh, a segment mesh; element objects incl. the stateful "
              "ElementTriMorley, ElementLinePp(3), ElementQuadP(3); each mesh's mapping; forms; one solver object per solver "
              "factory). Transitions = ~45 operations (building cell / facet / interior-facet bases on every mesh x element incl. "
              "one element on several meshes and equal-size different quadratures, assembly, interpolation, probes / interpolator at "
              "two point sets of equal size, every connectivity attribute, mapping queries in both layouts, refined / restrict / "
              "with_boundaries / translated / to_dict / save, enforce / condense / penalize, solve of two systems of different size "
              "with each solver object). ALL histories of length 2 and, with dedup on a canonical digest of every "
              "cache-bearing attribute, of length 3 (quick: those whose consecutive operations share a pooled object; thorough: all) are executed on a fresh pool; the last operation's result must equal "
              "the same operation on freshly constructed objects (exceptions on one side only count), and the digest of every "
              "pooled mesh / matrix / vector must be unchanged.")
LEVEL_NOTE = ("Caches considered: mesh lazy attributes, mapping Jacobian cache and affine tables, element tables (V, Legendre "
              "tables, last point set), basis-level caches, solver closures. The global NumPy RNG reseed of tetrahedral adaptive "
              "refinement is an observation only (no library result depends on it).")
RULE = ("state = canonical digest of cache-bearing attributes after a history; transition = operation. non-trivial = distinct "
        "history whose last operation reads a cache entry or object written by an earlier, different operation (pooled object "
        "shared between the two).")
ASSUMPTIONS = ["the pool is rebuilt from scratch for every history (live objects are not copied)", "floating results compared at 1e-11 relative"]
BOUNDS = {'quick': {'history_length': 3, 'length_3_restricted_to': 'histories in which consecutive operations share a pooled object',
                    'dedup': 'cache digest'},
          'thorough': {'history_length': 3, 'length_3_restricted_to': None, 'dedup': 'cache digest'}}
ITEM_TIMEOUT = {'quick': 900, 'thorough': 7200}


# ---------------------------------------------------------------------------------------
# pool
# ---------------------------------------------------------------------------------------

def make_pool(seed):
    import skfem as fem
    import skfem.element as E
    from skfem.utils import (solver_direct_scipy, solver_iter_krylov, solver_iter_pcg, solver_iter_cg)
    S = ms.seeds(seed)
    P = {}
    P['mA'] = S['T2'].build()
    pC = S['T2'].p.copy()
    pC[:, 3] += np.array([.25, .5])
    pC[:, 1] += np.array([.125, -.125])
    P['mC'] = fem.MeshTri(pC, S['T2'].t.copy())                 # same cell count, other geometry
    P['mB'] = S['Tfan4'].build()
    P['mQ'] = S['Q2'].build()
    P['mL'] = S['L3'].build()
    P['mM'] = S['T2'].build().mirrored((1., 0.))                # clockwise cells: oriented() has work to do
    # an already tagged mesh and a transformed copy of it (copies made by replace() may share containers)
    P['mT'] = S['Tfan4'].build().with_boundaries({'a': np.array([0, 1], dtype=np.int32)}).with_subdomains(
        {'s': np.array([0], dtype=np.int32)})
    P['mT2'] = P['mT'].translated((1., 0.))
    # an oriented (unsorted-column) mesh and the second-order mesh made from it: constructors that normalise t must copy
    P['mO'] = P['mM'].oriented()
    P['mO2'] = fem.MeshTri2.from_mesh(P['mM'].oriented())
    # tagged meshes of the other cell types
    P['mKT'] = S['K2'].build().with_subdomains({'s': np.array([0], dtype=np.int32)}).with_boundaries(
        {'a': np.array([0, 1], dtype=np.int32)})
    P['mLT'] = S['L3'].build().with_subdomains({'s': np.array([1], dtype=np.int32)}).with_boundaries(
        {'a': np.array([0], dtype=np.int32)})
    P['mQT'] = S['Q2'].build().with_subdomains({'s': np.array([1], dtype=np.int32)}).with_boundaries(
        {'a': np.array([0, 1], dtype=np.int32)})
    # same cells in another order (same array shapes, other facet ownership) for orientation-dependent elements
    P['mAr'] = fem.MeshTri(S['Tfan4'].p.copy(), S['Tfan4'].t[:, ::-1].copy())
    P['eRT'] = E.ElementTriRT1()
    P['eN1'] = E.ElementTriN1()
    P['eBDM'] = E.ElementTriBDM1()
    P['eP2'] = E.ElementTriP2()
    P['eMor'] = E.ElementTriMorley()
    P['eLpp'] = E.ElementLinePp(3)
    P['eQP'] = E.ElementQuadP(3)
    P['eQ1'] = E.ElementQuad1()
    from skfem.mapping import MappingIsoparametric
    P['mapL'] = MappingIsoparametric(P['mL'], E.ElementLineP1())
    P['mapQ'] = MappingIsoparametric(P['mQ'], E.ElementQuad1(), E.ElementLineP1())
    P['lap'] = fem.BilinearForm(lambda u, v, w: sum(u.grad[k] * v.grad[k] for k in range(u.grad.shape[0])) + u * v)
    P['load'] = fem.LinearForm(lambda v, w: (1 + w.x[0]) * v)
    P['s_direct'] = solver_direct_scipy()
    P['s_krylov'] = solver_iter_krylov(rtol=1e-12)
    P['s_pcg'] = solver_iter_pcg(rtol=1e-12)
    P['s_cg'] = solver_iter_cg(tol=1e-13)
    P['s_loose'] = solver_iter_krylov(rtol=1e-2)          # far from converged: the answer shows what the iteration started from
    P['lapT'] = fem.BilinearForm(lambda u, v, w: u * v + u.grad[0] * v, nthreads=2)      # a threaded form object
    # two linear systems of different size
    for nm, mesh in (('sys1', P['mA']), ('sys2', P['mB']), ('sys1c', P['mC'])):
        b = fem.CellBasis(mesh, E.ElementTriP1())
        A = P['lap'].assemble(b)
        f = P['load'].assemble(b)
        P[nm] = (A, f)
    # RESULTS kept by the caller: bases built earlier with the stateful element objects; later work with the same element
    # objects must leave their arrays alone
    P['bL1'] = fem.CellBasis(P['mL'], P['eLpp'], quadrature=(np.array([[.125, .5, .875]]), np.array([.25, .5, .25])))
    P['bQ1'] = fem.CellBasis(P['mQ'], P['eQP'], intorder=4)
    P['bM1'] = fem.CellBasis(P['mA'], P['eMor'])
    # systems returned by the boundary-condition helpers, kept and solved repeatedly
    from skfem.utils import condense, mpc
    import scipy.sparse as sp
    P['cond1'] = condense(*P['sys1'], x=np.array([1., 2., 3., 4.]), D=np.array([0, 2]))
    P['mpc1'] = mpc(*P['sys1'], S=np.array([0]), M=np.array([1]), T=sp.csr_matrix(np.array([[1.]])), g=np.array([.5]))
    return P


MESH_KEYS = ('mA', 'mC', 'mB', 'mQ', 'mL', 'mT', 'mT2', 'mM', 'mO', 'mO2', 'mKT', 'mLT', 'mQT', 'mAr')


def tag_arrays(m):
    out = []
    for tags in (m.boundaries, m.subdomains):
        if tags is None:
            out.append(np.array([-1]))
        else:
            for nm in sorted(tags):
                out.append(np.frombuffer(nm.encode(), dtype=np.uint8))
                out.append(np.asarray(tags[nm]))
                ori = getattr(tags[nm], 'ori', None)
                if ori is not None:
                    out.append(np.asarray(ori))
    return out


def arrays_of_pool(P):
    out = []
    for k in MESH_KEYS:
        m = P[k]
        out += [m.p, m.t]
        out += tag_arrays(m)
    for k in ('sys1', 'sys2', 'sys1c'):
        A, f = P[k]
        out += [A.data, A.indices, A.indptr, f]
    for k in ('cond1', 'mpc1'):
        A, f, x = P[k][:3]
        out += [A.data, A.indices, A.indptr, f, x]
    for k in ('bL1', 'bQ1', 'bM1'):
        out += _basis_obs(P[k])
    return out


def digest_arrays(arrs):
    h = hashlib.sha1()
    for a in arrs:
        a = np.ascontiguousarray(a)
        h.update(str(a.shape).encode() + str(a.dtype).encode())
        h.update(a.tobytes())
    return h.hexdigest()


def cache_signature(P):
    """Canonical digest of every cache-bearing attribute of the pooled objects."""
    h = hashlib.sha1()
    for k in MESH_KEYS:
        m = P[k]
        names = sorted(n for n in vars(m) if n.startswith('_') and n not in ('_boundaries', '_subdomains'))
        h.update((k + ':' + ','.join(names)).encode())
        mp = vars(m).get('_cached_mapping')
        if mp is not None:
            h.update(','.join(sorted(n for n in vars(mp) if n.startswith('_'))).encode())
            c = vars(mp).get('_cache')
            if c is not None:
                h.update(str(sorted((kk, v.shape) for kk, v in c.items())).encode())
    for k in sorted(kk for kk in P if kk.startswith('e')):
        e = P[k]
        for attr in sorted(set(vars(e)) | {'V', '_X', 'P', 'Px', 'Py', '_ori'}):
            v = getattr(e, attr, None)
            if isinstance(v, np.ndarray):
                h.update(attr.encode() + str(v.shape).encode() + np.ascontiguousarray(v).tobytes())
            elif v is None:
                h.update((attr + ':None').encode())
    for k in ('s_direct', 's_krylov', 's_pcg', 's_cg', 's_loose'):
        f = P[k]
        for cell in (f.__closure__ or ()):
            try:
                c = cell.cell_contents
            except ValueError:
                continue
            if isinstance(c, dict):
                h.update(str(sorted((kk, getattr(v, 'shape', None) or str(type(v).__name__)) for kk, v in c.items())).encode())
    return h.hexdigest()


# ---------------------------------------------------------------------------------------
# operations: name -> (fn(pool) -> observation, objects touched)
# ---------------------------------------------------------------------------------------

def _basis_obs(b):
    out = [np.asarray(b.dx), np.asarray(b.element_dofs)]
    for tup in b.basis:
        for f in tup:
            for a in f.astuple:
                if a is not None:
                    out.append(np.asarray(a))
    return out


def operations():
    import skfem as fem
    import skfem.element as E
    from skfem.utils import solve, condense, enforce, penalize
    ops = {}

    def op(name, touches):
        def deco(f):
            ops[name] = (f, set(touches))
            return f
        return deco
    # ---- bases with stateful elements on several meshes -------------------------------------------------------
    for mk in ('mA', 'mC', 'mB'):
        op(f'CellBasis({mk},eMor)', {mk, 'eMor'})(lambda P, mk=mk: _basis_obs(fem.CellBasis(P[mk], P['eMor'])))
        op(f'CellBasis({mk},eP2).assemble', {mk, 'eP2', 'lap'})(
            lambda P, mk=mk: [P['lap'].assemble(fem.CellBasis(P[mk], P['eP2'])).toarray()])
    op('FacetBasis(mA,eMor)', {'mA', 'eMor'})(lambda P: _basis_obs(fem.FacetBasis(P['mA'], P['eMor'])))
    op('FacetBasis(mC,eMor)', {'mC', 'eMor'})(lambda P: _basis_obs(fem.FacetBasis(P['mC'], P['eMor'])))
    for side in (0, 1):
        op(f'InteriorFacetBasis(mQ,eQP,side={side})', {'mQ', 'eQP'})(
            lambda P, side=side: _basis_obs(fem.InteriorFacetBasis(P['mQ'], P['eQP'], side=side)))
        op(f'InteriorFacetBasis(mL,eLpp,side={side})', {'mL', 'eLpp'})(
            lambda P, side=side: _basis_obs(fem.InteriorFacetBasis(P['mL'], P['eLpp'], side=side)))
    op('CellBasis(mQ,eQP)', {'mQ', 'eQP'})(lambda P: _basis_obs(fem.CellBasis(P['mQ'], P['eQP'], intorder=4)))
    op('CellBasis(mQ,eQP,elements=[1])', {'mQ', 'eQP'})(
        lambda P: _basis_obs(fem.CellBasis(P['mQ'], P['eQP'], intorder=4, elements=np.array([1]))))
    op('FacetBasis(mQ,eQP)', {'mQ', 'eQP'})(lambda P: _basis_obs(fem.FacetBasis(P['mQ'], P['eQP'], intorder=4)))
    op('CellBasis(mQ,eQ1,[1]i64)', {'mQ', 'eQ1'})(
        lambda P: _basis_obs(fem.CellBasis(P['mQ'], P['eQ1'], elements=np.array([1], dtype=np.int64))))
    op('CellBasis(mQ,eQ1,[1,0]i32)', {'mQ', 'eQ1'})(
        lambda P: _basis_obs(fem.CellBasis(P['mQ'], P['eQ1'], elements=np.array([1, 0], dtype=np.int32))))
    # explicit (pooled) isoparametric mapping objects shared by several bases
    op('CellBasis(mL,LineP2,mapping=mapL)', {'mL', 'mapL'})(
        lambda P: _basis_obs(fem.CellBasis(P['mL'], E.ElementLineP2(), mapping=P['mapL'])))
    op('CellBasis(mL,LineP1,mapping=mapL)+mass', {'mL', 'mapL', 'lap'})(
        lambda P: [P['lap'].assemble(fem.CellBasis(P['mL'], E.ElementLineP1(), mapping=P['mapL'])).toarray()])
    op('CellBasis(mQ,Quad2,mapping=mapQ)', {'mQ', 'mapQ'})(
        lambda P: _basis_obs(fem.CellBasis(P['mQ'], E.ElementQuad2(), mapping=P['mapQ'])))
    op('FacetBasis(mQ,Quad1,mapping=mapQ)', {'mQ', 'mapQ'})(
        lambda P: _basis_obs(fem.FacetBasis(P['mQ'], E.ElementQuad1(), mapping=P['mapQ'])))
    # meshes that share their vertex ARRAY but not their connectivity (oriented() / replace(t=...))
    op('CellBasis(mM,eMor)', {'mM', 'eMor'})(lambda P: _basis_obs(fem.CellBasis(P['mM'], P['eMor'])))
    op('CellBasis(mM.oriented(),eMor)', {'mM', 'eMor'})(lambda P: _basis_obs(fem.CellBasis(P['mM'].oriented(), P['eMor'])))
    op('CellBasis(replace(mB,t=reversed),eMor)', {'mB', 'eMor'})(
        lambda P: _basis_obs(fem.CellBasis(__import__('dataclasses').replace(P['mB'], t=P['mB'].t[:, ::-1].copy()), P['eMor'])))
    # equal-size quadratures at different points
    X1 = np.array([[.125, .5, .875]])
    X2 = np.array([[.25, .375, .75]])
    W = np.array([.25, .5, .25])
    op('CellBasis(mL,eLpp,quadX1)', {'mL', 'eLpp'})(lambda P: _basis_obs(fem.CellBasis(P['mL'], P['eLpp'], quadrature=(X1, W))))
    op('CellBasis(mL,eLpp,quadX2)', {'mL', 'eLpp'})(lambda P: _basis_obs(fem.CellBasis(P['mL'], P['eLpp'], quadrature=(X2, W))))
    # ... at points that share some entries with X1 at the same index (a staleness test on "all entries differ" misses these)
    X3 = np.array([[.125, .375, .875]])
    op('CellBasis(mL,eLpp,quadX3)', {'mL', 'eLpp'})(lambda P: _basis_obs(fem.CellBasis(P['mL'], P['eLpp'], quadrature=(X3, W))))
    # ... and at points that differ by less than 1e-8 (a tolerance-based staleness test would call them equal)
    X1e = X1 + 2.0 ** -27
    op('CellBasis(mL,eLpp,quadX1+2^-27)', {'mL', 'eLpp'})(lambda P: _basis_obs(fem.CellBasis(P['mL'], P['eLpp'], quadrature=(X1e, W))))
    Xq1 = np.array([[.25, .5, .75], [.125, .5, .625]])
    Wq = np.array([.25, .5, .25])
    op('CellBasis(mQ,eQP,quadXq1)', {'mQ', 'eQP'})(lambda P: _basis_obs(fem.CellBasis(P['mQ'], P['eQP'], quadrature=(Xq1, Wq))))
    op('CellBasis(mQ,eQP,quadXq1+2^-27)', {'mQ', 'eQP'})(
        lambda P: _basis_obs(fem.CellBasis(P['mQ'], P['eQP'], quadrature=(Xq1 + 2.0 ** -27, Wq))))
    # bases kept from earlier: observing them again, assembling with them
    for bk, ek in (('bL1', 'eLpp'), ('bQ1', 'eQP'), ('bM1', 'eMor')):
        op(f'observe {bk}', {bk, ek})(lambda P, bk=bk: _basis_obs(P[bk]))
        op(f'mass({bk})', {bk, ek, 'lap'})(lambda P, bk=bk: [fem.BilinearForm(lambda u, v, w: u * v).assemble(P[bk]).toarray()])
    # ---- probes / interpolator at two point sets of equal size --------------------------------------------------
    x1 = np.array([[.0625, .5, 1.75]])
    x2 = np.array([[.125, .75, 2.25]])

    def probes(P, x):
        b = fem.CellBasis(P['mL'], P['eLpp'])
        y = 1.0 + np.arange(b.N) * .5
        return [b.probes(x).toarray(), b.interpolator(y)(x), b.point_source(x[:, 0])]
    op('probes(mL,eLpp,x1)', {'mL', 'eLpp'})(lambda P: probes(P, x1))
    op('probes(mL,eLpp,x2)', {'mL', 'eLpp'})(lambda P: probes(P, x2))
    q1 = np.array([[.25, 1.5], [.25, .5]])
    q2 = np.array([[.5, 1.25], [.75, .25]])

    def probesq(P, x):
        b = fem.CellBasis(P['mQ'], P['eQP'], intorder=4)
        y = 1.0 + np.arange(b.N) * .25
        return [b.probes(x).toarray(), b.interpolator(y)(x)]
    op('probes(mQ,eQP,q1)', {'mQ', 'eQP'})(lambda P: probesq(P, q1))
    op('probes(mQ,eQP,q2)', {'mQ', 'eQP'})(lambda P: probesq(P, q2))
    op('finder(mA)', {'mA'})(lambda P: [P['mA'].element_finder()(np.array([.25, .9]), np.array([.25, .5]))])
    # ---- connectivity --------------------------------------------------------------------------------------------
    for mk in ('mA', 'mQ'):
        op(f'{mk}.connectivity', {mk})(lambda P, mk=mk: [P[mk].facets, P[mk].t2f, P[mk].f2t, P[mk].boundary_facets(),
                                                             P[mk].boundary_nodes(), P[mk].p2f.toarray()])
        op(f'{mk}.f2t-first', {mk})(lambda P, mk=mk: [P[mk].f2t])
    # ---- mapping queries (shared / per-cell layouts with the same bytes, int64 vs int32 subsets) ------------------
    Xs = np.array([[.25, .5, .75, .125], [.125, .25, .5, .75]])
    Xc = np.ascontiguousarray(Xs.reshape(2, 2, 2))
    t32 = np.array([0, 1], dtype=np.int32)
    op('mQ.mapping.DF(shared,t32)', {'mQ'})(lambda P: [P['mQ'].mapping().DF(Xs, t32)])
    op('mQ.mapping.DF(percell,t32)', {'mQ'})(lambda P: [P['mQ'].mapping().DF(Xc, t32)])
    op('mQ.mapping.detDF([1]i64)', {'mQ'})(lambda P: [P['mQ'].mapping().detDF(Xs, np.array([1], dtype=np.int64))])
    op('mQ.mapping.detDF([1,0]i32)', {'mQ'})(lambda P: [P['mQ'].mapping().detDF(Xs, np.array([1, 0], dtype=np.int32))])
    op('mA.mapping.F+invF', {'mA'})(lambda P: [P['mA'].mapping().F(Xs), P['mA'].mapping().invF(P['mA'].mapping().F(Xs), np.arange(2))])
    # ---- operations returning new objects ----------------------------------------------------------------------------
    op('mA.refined()', {'mA'})(lambda P: (lambda r: [r.p, r.t])(P['mA'].refined()))
    op('mA.refined([0])', {'mA'})(lambda P: (lambda r: [r.p, r.t])(P['mA'].refined(np.array([0]))))
    op('mB.restrict([0,2])', {'mB'})(lambda P: (lambda r: [r.p, r.t])(P['mB'].restrict(np.array([0, 2]))))
    op('mA.with_boundaries', {'mA'})(lambda P: [P['mA'].with_boundaries({'l': lambda x: x[0] < .1}).boundaries['l']])
    op('mT.with_boundaries(new+redefined)', {'mT', 'mT2'})(
        lambda P: [P['mT'].with_boundaries({'b': np.array([2], dtype=np.int32), 'a': np.array([3], dtype=np.int32)}).boundaries['a']])
    op('mT.with_subdomains(new)', {'mT', 'mT2'})(
        lambda P: [P['mT'].with_subdomains({'r': np.array([1, 2], dtype=np.int32)}).subdomains['r']])
    op('mT2.boundaries', {'mT', 'mT2'})(lambda P: [np.asarray(P['mT2'].boundaries['a']), np.array(sorted(len(k) for k in P['mT2'].boundaries))])
    op('mT.restrict+refined', {'mT'})(lambda P: [P['mT'].restrict(np.array([0, 1])).boundaries['a'], P['mT'].refined().boundaries['a']])
    op('mM.oriented()', {'mM'})(lambda P: (lambda o: [o.t, o.orientation()])(P['mM'].oriented()))
    op('mM.assemble(P2)', {'mM', 'eP2', 'lap'})(lambda P: [P['lap'].assemble(fem.CellBasis(P['mM'], P['eP2'])).toarray()])
    op('mM.InteriorFacetBasis(P2).trace', {'mM', 'eP2'})(
        lambda P: _basis_obs(fem.InteriorFacetBasis(P['mM'], P['eP2'], side=1)))
    op('mA.translated', {'mA'})(lambda P: [P['mA'].translated((1., 2.)).p])
    op('mQ.to_meshtri', {'mQ'})(lambda P: [P['mQ'].to_meshtri().t])
    op("mQ.to_meshtri(style='x')", {'mQ'})(lambda P: [P['mQ'].to_meshtri(style='x').p])
    op('mA.to_dict', {'mA'})(lambda P: (lambda d: [np.array(d['p']), np.array(d['t'])])(P['mA'].to_dict()))

    def save(P):
        d = tempfile.mkdtemp(prefix='c15_', dir='/dev/shm' if os.path.isdir('/dev/shm') else None)
        try:
            import contextlib
            import io
            path = os.path.join(d, 'm.vtk')
            with contextlib.redirect_stdout(io.StringIO()), contextlib.redirect_stderr(io.StringIO()):
                P['mA'].save(path)
                M = fem.Mesh.load(path)
            return [M.p, M.t]
        finally:
            import shutil
            shutil.rmtree(d, ignore_errors=True)
    op('mA.save+load', {'mA'})(save)
    # ---- one H(div) / H(curl) element object on meshes of equal size whose facets are owned / directed differently
    for ek in ('eRT', 'eN1', 'eBDM'):
        for mk in ('mB', 'mAr', 'mM'):
            op(f'InteriorFacetBasis({mk},{ek})', {mk, ek})(
                lambda P, mk=mk, ek=ek: _basis_obs(fem.InteriorFacetBasis(P[mk], P[ek], side=0)) +
                _basis_obs(fem.InteriorFacetBasis(P[mk], P[ek], side=1)))
        op(f'CellBasis(mB,{ek}).mass', {'mB', ek})(
            lambda P, ek=ek: [fem.BilinearForm(lambda u, v, w: sum(u[k] * v[k] for k in range(2))).assemble(
                fem.CellBasis(P['mB'], P[ek])).toarray()])
    # ---- constructors / conversions fed with the arrays of an unsorted-column mesh -----------------------------------
    op('MeshTri(mO.p,mO.t)', {'mO'})(lambda P: [fem.MeshTri(P['mO'].p, P['mO'].t).t])
    op('MeshTri2.from_mesh(mO)', {'mO'})(lambda P: [fem.MeshTri2.from_mesh(P['mO']).t])
    op('mO.orientation', {'mO'})(lambda P: [P['mO'].orientation(), P['mO'].t, P['mO'].t2f])
    op('mO.assemble(P2)', {'mO', 'eP2', 'lap'})(lambda P: [P['lap'].assemble(fem.CellBasis(P['mO'], P['eP2'])).toarray()])
    op('mO2.refined()', {'mO2'})(lambda P: (lambda r: [r.p, r.t])(P['mO2'].refined()))
    op('mO2.assemble(P2)', {'mO2', 'eP2', 'lap'})(lambda P: [P['lap'].assemble(fem.CellBasis(P['mO2'], P['eP2'])).toarray()])
    op('mO2.to_dict+t2f', {'mO2'})(lambda P: [P['mO2'].t, P['mO2'].t2f, P['mO2'].facets])
    # ---- mesh-returning operations on tagged meshes of every cell type --------------------------------------------------
    def mobs(r):
        return [r.p, r.t] + tag_arrays(r)
    for mk, simplex in (('mT', True), ('mKT', True), ('mLT', True), ('mQT', False)):
        tch = {mk, 'mT2'} if mk == 'mT' else {mk}
        op(f'{mk}.refined()', tch)(lambda P, mk=mk: mobs(P[mk].refined()))
        if simplex:
            op(f'{mk}.refined([0])', tch)(lambda P, mk=mk: mobs(P[mk].refined(np.array([0]))))
            op(f'{mk}.refined([1,0])', tch)(lambda P, mk=mk: mobs(P[mk].refined(np.array([1, 0]))))
        op(f'{mk}.restrict([1])', tch)(lambda P, mk=mk: mobs(P[mk].restrict(np.array([1]))))
        op(f'{mk}.remove_elements([0])', tch)(lambda P, mk=mk: mobs(P[mk].remove_elements(np.array([0]))))
        op(f'{mk}.scaled+translated', tch)(lambda P, mk=mk: mobs(P[mk].scaled(2.).translated((1.,) * P[mk].p.shape[0])))
        op(f'{mk}.tags', tch)(lambda P, mk=mk: tag_arrays(P[mk]))
        op(f'{mk}.Basis(elements=s)', tch)(lambda P, mk=mk: [fem.CellBasis(P[mk], P[mk].elem(), elements='s').dx,
                                                             fem.FacetBasis(P[mk], P[mk].elem(), facets='a').dx])
    op('mQT.to_meshtri', {'mQT'})(lambda P: mobs(P['mQT'].to_meshtri()))
    op('mT2.tags', {'mT', 'mT2'})(lambda P: tag_arrays(P['mT2']))
    # ---- boundary condition helpers on pooled systems ----------------------------------------------------------------
    D = np.array([0, 2])
    xx = np.array([1., 2., 3., 4.])
    op('condense(sys1)', {'sys1'})(lambda P: (lambda r: [r[0].toarray(), r[1]])(condense(*P['sys1'], x=xx, D=D)))
    op('enforce(sys1)', {'sys1'})(lambda P: (lambda r: [r[0].toarray(), r[1]])(enforce(*P['sys1'], x=xx, D=D)))
    op('penalize(sys1)', {'sys1'})(lambda P: [penalize(*P['sys1'], x=xx, D=D, epsilon=1e-8)[0].toarray()])
    # ---- solves with pooled solver objects, two systems of different size ---------------------------------------------
    for sk in ('s_direct', 's_krylov', 's_pcg', 's_cg'):
        for sysk in ('sys1', 'sys2'):
            op(f'solve({sysk},{sk})', {sysk, sk})(lambda P, sk=sk, sysk=sysk: [solve(*P[sysk], solver=P[sk])])
    # solve-time options (start vector, preconditioner) belong to that one call
    from skfem.utils import build_pc_ilu
    for sk in ('s_krylov', 's_pcg', 's_loose'):
        op(f'solve(sys1,{sk},x0=ones,M=ilu)', {'sys1', sk})(
            lambda P, sk=sk: [solve(*P['sys1'], solver=P[sk], x0=np.ones(P['sys1'][0].shape[0]), M=build_pc_ilu(P['sys1'][0]))])
        op(f'solve(sys1c,{sk})', {'sys1c', sk})(lambda P, sk=sk: [solve(*P['sys1c'], solver=P[sk])])
    op('solve(sys2,s_loose)', {'sys2', 's_loose'})(lambda P: [solve(*P['sys2'], solver=P['s_loose'])])
    # one threaded form object for two local shapes with the same number of index pairs
    op('lapT.assemble(P2->P1)', {'mA', 'lapT'})(
        lambda P: [P['lapT'].assemble(fem.CellBasis(P['mA'], E.ElementTriP2()), fem.CellBasis(P['mA'], E.ElementTriP1(), intorder=4)).toarray()])
    op('lapT.assemble(P1->P2)', {'mA', 'lapT'})(
        lambda P: [P['lapT'].assemble(fem.CellBasis(P['mA'], E.ElementTriP1(), intorder=4), fem.CellBasis(P['mA'], E.ElementTriP2())).toarray()])
    # systems returned by condense / mpc are values too: solving them again gives the same answer
    op('solve(cond1)', {'cond1'})(lambda P: [solve(*P['cond1'])])
    op('solve(cond1,s_krylov)', {'cond1', 's_krylov'})(lambda P: [solve(*P['cond1'], solver=P['s_krylov'])])
    op('solve(mpc1)', {'mpc1'})(lambda P: [solve(*P['mpc1'])])
    return ops


def same(a, b):
    if a[0] != b[0]:
        return False
    if a[0] == 'exc':
        return True
    if len(a[1]) != len(b[1]):
        return False
    for x, y in zip(a[1], b[1]):
        x, y = np.asarray(x), np.asarray(y)
        if x.shape != y.shape:
            return False
        if x.dtype.kind in 'iub' and y.dtype.kind in 'iub':
            if not np.array_equal(x, y):
                return False
        elif x.size and not np.allclose(x, y, rtol=1e-9, atol=1e-11 * (1 + np.abs(y).max())):
            return False
    return True


def run(fn, P):
    try:
        return ('ok', [np.array(r, copy=True) for r in fn(P)])
    except Exception as e:
        return ('exc', type(e).__name__ + ': ' + str(e)[:80])


def items(tier, seed):
    names = list(operations())
    return [(n,) for n in names]


def cost(item):
    return 3 if 'eMor' in item[0] else 1


def work(item, tier, seed):
    first, = item
    out = Out()
    out.set_item(item)
    warnings.simplefilter('ignore')
    ops = operations()
    names = list(ops)
    L = BOUNDS[tier]['history_length']
    # fresh observations and the pristine pool digest
    fresh = {}
    for n in names:
        fresh[n] = run(ops[n][0], make_pool(seed))
        if fresh[n][0] != 'ok' and n == first:
            out.count('operation_raises_on_fresh_objects:' + n)
    seen = set()
    hists = [[first]]
    depth = 1
    while hists:
        nxt = []
        for h in hists:
            for n in names:
                if len(h) >= 2 and BOUNDS[tier].get('length_3_restricted_to') and not (ops[h[-1]][1] & ops[n][1]):
                    continue
                if len(h) >= 2 and BOUNDS[tier].get('length_3_restricted_to') and not (ops[h[0]][1] & ops[h[1]][1]):
                    continue
                seq = h + [n]
                P = make_pool(seed)
                dig0 = digest_arrays(arrays_of_pool(P))
                ok = True
                for k, nm in enumerate(seq):
                    r = run(ops[nm][0], P)
                    out.transitions += 1
                    if digest_arrays(arrays_of_pool(P)) != dig0:
                        out.violation(f"C15|operand-mutated|{nm}", f"operation {nm} changed an array of a pooled mesh / system "
                                      f"[history {seq[:k + 1]}]", case={'history': seq[:k + 1]})
                        dig0 = digest_arrays(arrays_of_pool(P))
                    if k == len(seq) - 1 or True:
                        if not same(r, fresh[nm]):
                            what = ('exception-only-after-history' if r[0] == 'exc' and fresh[nm][0] == 'ok' else
                                    'exception-only-when-fresh' if r[0] == 'ok' and fresh[nm][0] == 'exc' else 'history-dependent-result')
                            det = r[1] if r[0] == 'exc' else ''
                            prev = [p for p in seq[:k] if ops[p][1] & ops[nm][1]]
                            out.violation(f"C15|{what}|{nm}|after:{prev[-1] if prev else seq[max(k - 1, 0)]}",
                                          f"{nm} after {seq[:k]} differs from the same operation on freshly built objects {det}",
                                          case={'history': seq[:k + 1]})
                            ok = False
                            break
                out.ev()
                if not ok:
                    continue
                shared = any(ops[p][1] & ops[n][1] and p != n for p in h)
                if shared:
                    out.nt(tuple(seq))
                sig = cache_signature(P)
                if sig not in seen:
                    seen.add(sig)
                    out.states += 1
                    if depth + 1 < L:
                        nxt.append(seq)
                out.outcome((n, sig[:8]))
        hists = nxt
        depth += 1
    out.traces = out.transitions
    out.sample({'first_operation': first, 'alphabet_size': len(names), 'history_length': L,
                'example_history': [first, names[3], names[-1]][:L]}, 1)
    return out


def replay(rec, tier, seed):
    out = Out()
    warnings.simplefilter('ignore')
    ops = operations()
    seq = rec['case']['history']
    P = make_pool(seed)
    for k, nm in enumerate(seq):
        r = run(ops[nm][0], P)
        f = run(ops[nm][0], make_pool(seed))
        if not same(r, f):
            out.violation(rec['sig'], f"{nm} after {seq[:k]} differs from fresh")
            break
    return out
