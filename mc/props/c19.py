"""C19 - vector, composite and block structures agree with their components."""
from __future__ import annotations

import itertools
import warnings

import numpy as np
import scipy.sparse as sp

from ..report import Out
from .. import meshspace as ms
from .. import catalogue as cat
from ..topo import REF, KIND_OF_CLASS
from . import c10

ID = 'C19'
# sub-checks added after the seeded-change waves (DESIGN.md sections 5 and 6)
EXTENSIONS = [
    'every bmat grid pattern up to 3x4; every list-length combination of asm with w.idx; split identity on restricted / facet / side-1 bases; per-cell matrices and inverse of sums; blocks of complex forms',
]
LEVEL = 'exploration'
TECHNIQUE = "small-scope exhaustive enumeration (meshes x wrapper elements x all unit vectors x all bipartitions) with algebraic consistency oracles"
LEVEL_TEXT = ("For small meshes of every class (plain, renumbered, mirrored) and every vector / composite wrapper in the catalogue "
              "(2-3 components with different nodal / edge / facet / interior counts, vector x scalar, explicit component counts): "
              "(1) for ALL unit vectors, interpolate-then-take-component == split-then-interpolate (values and gradients); (2) a "
              "coupling form whose blocks all differ, assembled on the wrapper basis and permuted by split_indices, equals the "
              "separately assembled component blocks (rows test component, columns trial component), also on facet bases; (3) "
              "asm over basis lists for ALL bipartitions of the cell set (<= 5 cells) sums to the whole for bilinear, linear and "
              "functional forms; (4) COOData: +, tolocal / fromlocal round trip, local blocks == per-cell reference blocks, "
              "inverse of elementwise matrices, toarray / tocsr / todefault, dot(x) == A x, facet tolocal(basis); (5) Form.block "
              "keeps exactly one block; (6) utils.bmat == scipy bmat with block offsets; (7) same-rank CompositeBasis == block "
              "matrix of its members.")
LEVEL_NOTE = "Entrywise comparisons at 1e-12 * scale; component blocks are assembled by the same BilinearForm machinery (whose own correctness is C01)."
RULE = ("case = (mesh state, wrapper element, sub-check). non-trivial = distinct case with >= 2 components whose blocks are all "
        "non-zero and pairwise different.")
ASSUMPTIONS = ["mixed-rank CompositeBasis (vector x scalar) raises ValueError in the library: loud, outside the statement (counted)"]
BOUNDS = {'quick': {'bipartitions': 'all for <= 5 cells', 'states': 'plain, vswap, mirrored'},
          'thorough': {'bipartitions': 'all for <= 6 cells', 'states': 'plain, 2 raw variants, mirrored, order2-curved'}}
ITEM_TIMEOUT = {'quick': 900, 'thorough': 3600}
SEEDS = {'line': 'L3', 'tri': 'Tfan4', 'quad': 'Q2', 'tet': 'K2', 'hex': 'H2'}


def items(tier, seed):
    its = []
    for kind, sname in SEEDS.items():
        ents = [e for e in cat.entries(kind, wrappers=True) if e.wrapper in ('vector', 'composite')]
        labs = ['plain', 'mirrored'] + (['order2-curved'] if tier == 'thorough' and kind in ('tri', 'quad', 'tet') else [])
        for lab in labs:
            for e in ents:
                its.append((sname, lab, e.name))
        its.append((sname, 'raw', ents[0].name))
        its.append((sname, 'plain', 'coodata'))
        its.append((sname, 'mirrored', 'coodata'))
        its.append((sname, 'plain', 'asmlists'))
    for nr in (1, 2, 3):
        for nc in (1, 2, 3, 4):
            its.append(('-', f'{nr}x{nc}', 'bmatgrid'))
    return its


def cost(item):
    return {'H2': 8, 'K2': 3}.get(item[0], 1) * (3 if 'Hex2' in item[2] or 'HexS2' in item[2] else 1)


def get_mesh(sname, lab, seed):
    if lab == 'raw':
        st0 = ms.seeds(seed)[sname]
        st = list(ms.raw_transitions(st0))[1][1]
        return st.build()
    return c10.get_mesh(sname, lab, seed, 'quick')


def scalar_of(fld, which):
    """One scalar observation of a component field (value / first derivative) - distinct per 'which'."""
    v = np.asarray(fld)
    if v.ndim == 2:
        if which % 2 == 1 and fld.grad is not None:
            return fld.grad[0]
        return v
    if v.ndim == 3:
        if which % 2 == 1 and fld.div is not None:
            return fld.div
        return v[which % v.shape[0]]
    return v[0, 0]


def work(item, tier, seed):
    sname, lab, ename = item
    out = Out()
    out.set_item(item)
    warnings.simplefilter('ignore')
    if ename == 'bmatgrid':
        bmat_grid(lab, out)
        return out
    m = get_mesh(sname, lab, seed)
    if ename == 'asmlists':
        asm_list_checks(m, sname, lab, out)
        return out
    if ename == 'coodata':
        coodata_checks(m, sname, lab, out)
        return out
    ent = cat.by_name(ename)
    wrapper_checks(m, ent, sname, lab, tier, out)
    return out


def wrapper_checks(m, ent, sname, lab, tier, out):
    from skfem import CellBasis, FacetBasis, BilinearForm, LinearForm, Functional, asm
    from skfem.assembly.basis.composite_basis import CompositeBasis
    import skfem.element as E
    kind = KIND_OF_CLASS[type(m).__name__]
    sig0 = f"C19|{ent.name}|"
    case0 = {'seed': sname, 'variant': lab, 'element': ent.name}

    def bad(what, msg):
        out.violation(sig0 + what, f"{msg} [element {ent.name}, mesh {sname}:{lab}]", case=case0)
    elem = ent.make()
    b = CellBasis(m, elem, intorder=4)
    N = b.N
    ix = b.split_indices()
    nc = len(ix)
    # split indices partition 0..N-1
    allix = np.concatenate(ix)
    out.ev()
    if sorted(allix.tolist()) != list(range(N)):
        bad('split-indices', f"split_indices do not partition the DOFs (sizes {[len(i) for i in ix]}, N={N})")
        return
    sb = b.split_bases()
    if [s.N for s in sb] != [len(i) for i in ix]:
        bad('split-bases', f"component bases have {[s.N for s in sb]} DOFs, split_indices have {[len(i) for i in ix]}")
        return
    # (1) interpolation commutes with splitting: all unit vectors
    isvec = isinstance(elem, E.ElementVector)
    for k in range(N):
        e = np.zeros(N)
        e[k] = 1.0
        full = b.interpolate(e)
        parts = b.split(e)
        out.ev()
        for c, (xc, bc) in enumerate(parts):
            part = bc.interpolate(xc)
            if isinstance(part, tuple):
                part = part[0]
            if isvec:
                fv, fg = np.asarray(full)[c], (None if full.grad is None else np.asarray(full.grad)[c])
            else:
                f_c = full[c] if isinstance(full, tuple) else full
                fv, fg = np.asarray(f_c), (None if f_c.grad is None else np.asarray(f_c.grad))
            pv = np.asarray(part)
            if fv.shape != pv.shape or np.abs(fv - pv).max() > 1e-12 * (1 + np.abs(fv).max()):
                bad('split-interpolate-value', f"component {c} of interpolate(e_{k}) differs from interpolating the split "
                    f"coefficient vector on the component basis")
                return
            if fg is not None and part.grad is not None:
                pg = np.asarray(part.grad)
                if fg.shape == pg.shape and np.abs(fg - pg).max() > 1e-11 * (1 + np.abs(fg).max()):
                    bad('split-interpolate-grad', f"gradient of component {c} of interpolate(e_{k}) differs from the component basis")
                    return
    # (1b) the same identity on bases restricted to a cell subset and on boundary facet bases
    nt_ = m.t.shape[1]
    rbases = []
    if nt_ >= 2:
        rbases.append(('cells[last]', lambda: CellBasis(m, ent.make(), elements=np.array([nt_ - 1], dtype=np.int32), intorder=4)))
    if kind != 'wedge':
        rbases.append(('boundary', lambda: FacetBasis(m, ent.make(), intorder=4)))
        if (m.f2t[1] != -1).any():
            from skfem import InteriorFacetBasis
            rbases.append(('interior-side1', lambda: InteriorFacetBasis(m, ent.make(), intorder=4, side=1)))
    for rl, mkb in rbases:
        try:
            rb = mkb()
        except Exception:
            continue
        for k in sorted({0, N // 2, N - 1}):
            e = np.zeros(N)
            e[k] = 1.0
            out.ev()
            try:
                full = rb.interpolate(e)
                parts = rb.split(e)
                for c, (xc, bc) in enumerate(parts):
                    part = bc.interpolate(xc)
                    part = part[0] if isinstance(part, tuple) else part
                    fv = np.asarray(full)[c] if isvec else np.asarray(full[c] if isinstance(full, tuple) else full)
                    pv = np.asarray(part)
                    if fv.shape != pv.shape or np.abs(fv - pv).max() > 1e-12 * (1 + np.abs(fv).max()):
                        bad('split-interpolate-restricted', f"{rl}: component {c} of interpolate(e_{k}) (shape {fv.shape}) differs "
                            f"from interpolating the split vector on the component basis (shape {pv.shape}): split_bases does "
                            f"not keep the restriction")
                        raise StopIteration
            except StopIteration:
                break
            except Exception as ex_:
                bad('split-interpolate-restricted-exception', f"{rl}: {ex_!r}")
                break
    if ent.name.startswith('ElementVector(Vector('):
        # rank-2 (nested) vector: components are vector-valued themselves; only the split/interpolate identities apply here
        out.outcome((ent.name, nc, N))
        return
    # (2) coupling form with all blocks distinct == block matrix of the component assemblies
    coef = np.array([[1.0 + 2 * a + 5 * bb + (a * bb) for bb in range(nc)] for a in range(nc)])
    for mk_label, mk in (('cells', lambda e_: CellBasis(m, e_, intorder=4)),
                         ('boundary', lambda e_: FacetBasis(m, e_, intorder=4))):
        if kind == 'wedge' and mk_label == 'boundary':
            continue
        try:
            bb_ = mk(ent.make())
        except Exception:
            out.count('basis_unsupported:' + mk_label)
            continue
        comps = bb_.split_bases()
        ixs = bb_.split_indices()
        if isvec:
            def form(u, v, w):
                return sum(coef[a, c] * scalar_of_vec(u, c, a + c) * scalar_of_vec(v, a, a) * (1 + w.x[0])
                           for a in range(nc) for c in range(nc))
        else:
            def _form(*args):
                w = args[-1]
                us, vs = args[:nc], args[nc:2 * nc]
                return sum(coef[a, c] * scalar_of(us[c], a + c) * scalar_of(vs[a], a) * (1 + w.x[0])
                           for a in range(nc) for c in range(nc))
            # explicit arity (Form.block inspects the signature)
            names = [f'u{i}' for i in range(nc)] + [f'v{i}' for i in range(nc)] + ['w']
            form = eval(f"lambda {', '.join(names)}: _f({', '.join(names)})", {'_f': _form})
            form_cx = eval(f"lambda {', '.join(names)}: _f({', '.join(names)}) * (1.0 + 2.0j)", {'_f': _form})
        try:
            A = BilinearForm(form).assemble(bb_).toarray()
        except Exception as e:
            bad('assemble-exception', repr(e))
            continue
        okb = True
        nzblocks = 0
        for a in range(nc):
            for c in range(nc):
                if isvec:
                    blk = BilinearForm(lambda u, v, w, a=a, c=c: coef[a, c] * comp_obs(u, a + c) * comp_obs(v, a) * (1 + w.x[0])
                                       ).assemble(comps[c], comps[a]).toarray()
                else:
                    blk = BilinearForm(lambda u, v, w, a=a, c=c: coef[a, c] * scalar_of(u, a + c) * scalar_of(v, a) * (1 + w.x[0])
                                       ).assemble(comps[c], comps[a]).toarray()
                got = A[np.ix_(ixs[a], ixs[c])]
                out.ev()
                if np.abs(blk).max() > 1e-12:
                    nzblocks += 1
                if got.shape != blk.shape or np.abs(got - blk).max() > 1e-11 * (1 + np.abs(blk).max()):
                    bad('block-structure', f"{mk_label}: block (test component {a}, trial component {c}) of the wrapper matrix "
                        f"under split_indices differs from the separately assembled component block (max diff "
                        f"{np.abs(got - blk).max() if got.shape == blk.shape else 'shape'})")
                    okb = False
                    break
            if not okb:
                break
        if okb and nc >= 2 and nzblocks == nc * nc:
            out.nt((sname, lab, ent.name, mk_label))
        # (5) Form.block keeps exactly one block (composite forms)
        if okb and not isvec and nc >= 2 and mk_label == 'cells':
            try:
                F = BilinearForm(form)
                # a block of a complex-valued form is complex-valued too (dtype, thread count, ... are inherited)
                Fc = BilinearForm(form_cx, dtype=np.complex128)
                Bc = Fc.block(0, nc - 1).assemble(comps[0], comps[nc - 1]).toarray()
                wc = A[np.ix_(ixs[nc - 1], ixs[0])] * (1.0 + 2.0j)
                if Bc.shape != wc.shape or np.abs(Bc - wc).max() > 1e-11 * (1 + np.abs(A).max()):
                    bad('form-block-complex', f"block(0, {nc - 1}) of a complex-valued form differs from (1+2j) times the block of the "
                        f"real form (imaginary part lost?)")
                for a in range(nc):
                    for c in range(nc):
                        # block(c, a) is a form for the component bases: trial component c, test component a
                        Bk = F.block(c, a).assemble(comps[c], comps[a]).toarray()
                        want = A[np.ix_(ixs[a], ixs[c])]
                        out.ev()
                        if Bk.shape != want.shape or np.abs(Bk - want).max() > 1e-11 * (1 + np.abs(A).max()):
                            bad('form-block', f"Form.block({c}, {a}) assembled on the component bases differs from the "
                                f"(test {a}, trial {c}) block of the composite matrix")
                            raise StopIteration
            except StopIteration:
                pass
            except Exception as e:
                bad('form-block-exception', repr(e))
        # (7) same-rank CompositeBasis == block matrix of its members
        if okb and not isvec and mk_label == 'cells' and nc >= 2:
            ranks = [np.asarray(cb_.basis[0][0]).ndim for cb_ in comps]
            if len(set(ranks)) == 1:
                try:
                    CB = CompositeBasis(*comps)
                    Ac = BilinearForm(form).assemble(CB).toarray()
                    offs = np.cumsum([0] + [cb_.N for cb_ in comps])
                    for a in range(nc):
                        for c in range(nc):
                            got = Ac[offs[a]:offs[a + 1], offs[c]:offs[c + 1]]
                            want = A[np.ix_(ixs[a], ixs[c])]
                            # component bases number their DOFs like the split: same order
                            out.ev()
                            if got.shape != want.shape or np.abs(got - want).max() > 1e-11 * (1 + np.abs(want).max()):
                                bad('composite-basis', f"CompositeBasis block ({a}, {c}) differs from the ElementComposite matrix "
                                    f"under split_indices")
                                raise StopIteration
                except StopIteration:
                    pass
                except Exception as e:
                    bad('composite-basis-exception', repr(e))
            else:
                out.count('mixed_rank_CompositeBasis_not_supported_by_library')
    # (3) sums over all bipartitions of the cell set
    nt = m.t.shape[1]
    lim = 5 if tier == 'quick' else 6
    if nt <= lim and nt >= 2:
        if isvec:
            def f2(u, v, w):
                return comp_obs(u, 0) * comp_obs(v, 1) * (1 + w.x[0])

            def l1(v, w):
                return comp_obs(v, 1) * (2 + w.x[0])
        else:
            def f2(*a):
                return scalar_of(a[0], 0) * scalar_of(a[nc + nc - 1], 1) * (1 + a[-1].x[0])

            def l1(*a):
                return scalar_of(a[nc - 1], 1) * (2 + a[-1].x[0])
        A = BilinearForm(f2).assemble(b)
        L = LinearForm(l1).assemble(b)
        J = Functional(lambda w: 1.0 + w.x[0] ** 2).assemble(b)
        for r in range(1, nt // 2 + 1):
            for S in itertools.combinations(range(nt), r):
                S2 = tuple(c for c in range(nt) if c not in S)
                bs = [CellBasis(m, ent.make(), elements=np.array(S, dtype=np.int32), intorder=4),
                      CellBasis(m, ent.make(), elements=np.array(S2, dtype=np.int32), intorder=4)]
                out.ev()
                try:
                    As = asm(BilinearForm(f2), bs)
                    Ls = asm(LinearForm(l1), bs)
                    Js = asm(Functional(lambda w: 1.0 + w.x[0] ** 2), bs)
                except Exception as e:
                    bad('asm-exception', repr(e))
                    return
                sc = 1 + np.abs(A.toarray()).max()
                if As.shape != A.shape or np.abs((As - A).toarray()).max() > 1e-12 * sc:
                    bad('asm-partition-matrix', f"asm over the cell partition {list(S)} | {list(S2)} does not sum to the whole matrix")
                    return
                if np.abs(Ls - L).max() > 1e-12 * (1 + np.abs(L).max()) or abs(Js - J) > 1e-12 * (1 + abs(J)):
                    bad('asm-partition-vector', f"asm over the cell partition {list(S)} | {list(S2)} does not sum to the whole "
                        f"vector / scalar")
                    return
    out.outcome((ent.name, nc, N))
    if lab == 'plain':
        out.sample({'mesh': f'{sname}:{lab}', 'element': ent.name, 'components': nc, 'N': int(N)}, 1)


def bmat_grid(lab, out):
    """utils.bmat on EVERY nr x nc grid pattern of present / absent (None) blocks in which each block row and block
    column keeps a block (what scipy requires), with pairwise different block heights and widths and integer entries:
    the matrix equals the dense block layout and .blocks are the cumulative column widths (the offsets at which a
    solution vector is split)."""
    from skfem.utils import bmat
    nr, nc = (int(x) for x in lab.split('x'))
    heights = [3, 1, 2][:nr]
    widths = [2, 3, 1, 4][:nc]
    r0 = np.concatenate(([0], np.cumsum(heights)))
    c0 = np.concatenate(([0], np.cumsum(widths)))
    want_blocks = [int(x) for x in np.cumsum(widths)[:-1]]
    cells = [(i, j) for i in range(nr) for j in range(nc)]
    for mask in range(1 << len(cells)):
        present = {c for k, c in enumerate(cells) if mask >> k & 1}
        if any(all((i, j) not in present for j in range(nc)) for i in range(nr)):
            continue
        if any(all((i, j) not in present for i in range(nr)) for j in range(nc)):
            continue
        dense = np.zeros((r0[-1], c0[-1]))
        rows = []
        for i in range(nr):
            row = []
            for j in range(nc):
                if (i, j) in present:
                    blk = (np.arange(heights[i] * widths[j]).reshape(heights[i], widths[j]) + 1.0) * (1 + i + 10 * j)
                    dense[r0[i]:r0[i + 1], c0[j]:c0[j + 1]] = blk
                    row.append(sp.csr_matrix(blk))
                else:
                    row.append(None)
            rows.append(row)
        out.ev()
        case = {'grid': lab, 'present': sorted(present)}
        try:
            B = bmat(rows, 'csr')
        except Exception as e:
            out.violation(f"C19|bmat-grid|{lab}|exception", f"{e!r} for blocks present at {sorted(present)}", case=case)
            continue
        got = [int(x) for x in B.blocks]
        if B.shape != dense.shape or not np.array_equal(B.toarray(), dense):
            out.violation(f"C19|bmat-grid|{lab}|matrix", f"utils.bmat differs from the block layout for blocks present at "
                          f"{sorted(present)}", case=case)
        elif got != want_blocks:
            out.violation(f"C19|bmat-grid|{lab}|offsets", f"utils.bmat on a {lab} grid with block widths {widths}, blocks present "
                          f"at {sorted(present)}: .blocks = {got}, cumulative widths are {want_blocks}", case=case)
        else:
            if len(present) < len(cells) or nr != nc:
                out.nt((lab, mask))
        out.outcome((lab, len(present)))
    out.sample({'sub-check': 'bmat-grid', 'grid': lab, 'heights': heights, 'widths': widths}, 1)


def asm_list_checks(m, sname, lab, out):
    """asm(form, ubases, vbases) with every combination of list lengths (a bare basis, lists of 1, 2, 3 bases): the result is
    the sum over the product of the lists, and w.idx tells the integrand which member of each list it sees."""
    from skfem import InteriorFacetBasis, CellBasis, BilinearForm, LinearForm, Functional, asm
    import skfem.element as E
    kind = KIND_OF_CLASS[type(m).__name__]
    sig0 = "C19|asm-lists|"
    case0 = {'seed': sname, 'variant': lab}
    p1 = {'line': E.ElementLineP1, 'tri': E.ElementTriP1, 'quad': E.ElementQuad1, 'tet': E.ElementTetP1, 'hex': E.ElementHex1}[kind]
    p2 = {'line': E.ElementLineP2, 'tri': E.ElementTriP2, 'quad': E.ElementQuad2, 'tet': E.ElementTetP2, 'hex': E.ElementHex2}[kind]
    fbu = [InteriorFacetBasis(m, p2(), side=s, intorder=4) for s in (0, 1)]
    fbv = [InteriorFacetBasis(m, p1(), side=s, intorder=4) for s in (0, 1)]
    choices = {'bare': lambda fb: fb[1], 'list1': lambda fb: [fb[1]], 'list2': lambda fb: [fb[0], fb[1]],
               'list3': lambda fb: [fb[0], fb[1], fb[0]]}
    aslist = lambda x: x if isinstance(x, list) else [x]      # noqa: E731

    def wt(i, j):
        return 1.0 + i + 10.0 * j

    for un, uf in choices.items():
        for vn, vf in choices.items():
            ul, vl = uf(fbu), vf(fbv)
            out.ev()
            case = dict(case0, trial=un, test=vn)
            try:
                A = asm(BilinearForm(lambda u, v, w: u * v * (1.0 + w.idx[0] + 10.0 * w.idx[1]) + u.grad[0] * v * (w.idx[0] == w.idx[1])),
                        ul, vl)
            except Exception as e:
                out.violation(sig0 + f"bilinear|{un}x{vn}|exception", f"{e!r} [mesh {sname}:{lab}]", case=case)
                continue
            W = None
            for i, ub in enumerate(aslist(ul)):
                for j, vb in enumerate(aslist(vl)):
                    T = BilinearForm(lambda u, v, w, i=i, j=j: u * v * wt(i, j) + u.grad[0] * v * (i == j)).assemble(ub, vb)
                    W = T if W is None else W + T
            if A.shape != W.shape or np.abs((A - W).toarray()).max() > 1e-12 * (1 + np.abs(W.toarray()).max()):
                out.violation(sig0 + f"bilinear|{un}x{vn}|sum-over-product", f"asm(form, {un}, {vn}) is not the sum over the "
                              f"product of the two lists with w.idx = (trial index, test index) [mesh {sname}:{lab}]", case=case)
            elif un != vn:
                out.nt((sname, un, vn))
            out.outcome((un, vn))
    for vn, vf in choices.items():
        vl = vf(fbv)
        out.ev()
        try:
            L = asm(LinearForm(lambda v, w: v * (2.0 + w.idx[0]) * (1 + w.x[0])), vl)
            J = asm(Functional(lambda w: (3.0 + w.idx[0]) * w.x[0] ** 2), vl)
        except Exception as e:
            out.violation(sig0 + f"linear|{vn}|exception", f"{e!r} [mesh {sname}:{lab}]", case=dict(case0, test=vn))
            continue
        Lw = sum(LinearForm(lambda v, w, i=i: v * (2.0 + i) * (1 + w.x[0])).assemble(vb) for i, vb in enumerate(aslist(vl)))
        Jw = sum(Functional(lambda w, i=i: (3.0 + i) * w.x[0] ** 2).assemble(vb) for i, vb in enumerate(aslist(vl)))
        if np.abs(L - Lw).max() > 1e-12 * (1 + np.abs(Lw).max()) or abs(J - Jw) > 1e-12 * (1 + abs(Jw)):
            out.violation(sig0 + f"linear|{vn}|sum", f"asm of a linear form / functional over {vn} is not the indexed sum "
                          f"[mesh {sname}:{lab}]", case=dict(case0, test=vn))
    out.sample({'sub-check': 'asm-lists', 'mesh': f'{sname}:{lab}', 'list forms': list(choices)}, 1)


def comp_obs(fld, which):
    """scalar observation of a scalar component basis field (component bases of ElementVector are scalar)."""
    return scalar_of(fld, which)


def scalar_of_vec(fld, comp, which):
    """same observation taken from component `comp` of a vector-valued field."""
    v = np.asarray(fld)
    if which % 2 == 1 and fld.grad is not None:
        return fld.grad[comp, 0]
    return v[comp]


def coodata_checks(m, sname, lab, out):
    from skfem import CellBasis, FacetBasis, BilinearForm, LinearForm
    import skfem.element as E
    kind = KIND_OF_CLASS[type(m).__name__]
    dim = REF[kind]['dim']
    sig0 = "C19|COOData|"
    case0 = {'seed': sname, 'variant': lab}

    def bad(what, msg):
        out.violation(sig0 + what, f"{msg} [mesh {sname}:{lab}]", case=case0)
    reps = {'line': ('ElementLineP2', 'ElementLineP1'), 'tri': ('ElementTriP2', 'ElementTriP1'),
            'quad': ('ElementQuad2', 'ElementQuad1'), 'tet': ('ElementTetP2', 'ElementTetP1'), 'hex': ('ElementHexS2', 'ElementHex1')}[kind]
    eu, ev = getattr(E, reps[0]), getattr(E, reps[1])
    ub = CellBasis(m, eu(), intorder=4)
    vb = CellBasis(m, ev(), intorder=4)
    form = BilinearForm(lambda u, v, w: u * v.grad[0] * (1 + w.x[0]) + 2 * u.grad[dim - 1] * v)
    for lbl, (tb, sb_) in (('square', (ub, ub)), ('rectangular', (ub, vb))):
        el = form.elemental(tb, sb_)
        A = form.assemble(tb, sb_)
        Ad = A.toarray()
        out.ev()
        sc = 1 + np.abs(Ad).max()
        if np.abs(el.toarray() - Ad).max() > 1e-13 * sc or np.abs(el.tocsr().toarray() - Ad).max() > 1e-13 * sc or \
                np.abs(el.todefault().toarray() - Ad).max() > 1e-13 * sc:
            bad('conversions', f"{lbl}: toarray / tocsr / todefault differ from the assembled matrix")
        x = 1.0 + np.arange(tb.N) * .5
        if lbl == 'square':
            y = el.dot(x)
            if np.abs(y - Ad @ x).max() > 1e-12 * (1 + np.abs(Ad @ x).max()):
                bad('dot', "COOData.dot(x) differs from A @ x")
            D = np.array([0, tb.N - 1])
            y = el.dot(x, D=D)
            want = Ad @ x
            want[D] = x[D]
            if np.abs(y - want).max() > 1e-12 * (1 + np.abs(want).max()):
                bad('dot-D', "COOData.dot(x, D) does not keep x on D")
        # local matrices: per-cell reference blocks
        loc = el.tolocal()
        nt = tb.nelems
        Nu, Nv = tb.Nbfun, sb_.Nbfun
        ref = np.zeros((nt, Nv, Nu))
        from skfem.assembly.form.form import FormExtraParams
        w = FormExtraParams(tb.default_parameters())
        for j in range(Nu):
            for i in range(Nv):
                ref[:, i, j] = (form.form(tb.basis[j][0], sb_.basis[i][0], w) * tb.dx).sum(axis=1)
        out.ev()
        if loc.shape == ref.shape and np.abs(loc - ref).max() <= 1e-12 * (1 + np.abs(ref).max()):
            out.outcome(('tolocal', lbl, 'rows=test'))
        elif loc.shape == (nt, Nu, Nv) and np.abs(loc - np.transpose(ref, (0, 2, 1))).max() <= 1e-12 * (1 + np.abs(ref).max()):
            out.outcome(('tolocal', lbl, 'rows=trial'))
            if lbl == 'square':
                pass
        else:
            bad('tolocal', f"{lbl}: tolocal() blocks (shape {loc.shape}) are neither the per-cell matrices (rows test, {ref.shape}) "
                f"nor their transposes")
        # round trip
        back = el.fromlocal(loc)
        if np.abs(back.toarray() - Ad).max() > 1e-13 * sc:
            bad('fromlocal', f"{lbl}: fromlocal(tolocal()) does not reproduce the matrix")
        # addition
        s2 = (el + el)
        if np.abs(s2.toarray() - 2 * Ad).max() > 1e-12 * sc:
            bad('add', f"{lbl}: el + el differs from 2 A")
        # per-cell matrices of a SUM: either refused (the library cannot know the layout of concatenated data) or the per-cell
        # matrices of the sum; never silently something else
        try:
            l2 = s2.tolocal()
            if l2.shape != loc.shape or np.abs(l2 - 2 * loc).max() > 1e-12 * sc:
                bad('add-tolocal', f"{lbl}: (el + el).tolocal() returns per-cell matrices that are not twice those of el")
        except NotImplementedError:
            out.count('tolocal_of_a_sum_refused')
        except Exception as e:
            bad('add-tolocal-exception', repr(e))
        out.nt((sname, lab, lbl))
    # inverse of elementwise (block diagonal) mass matrices
    edg = E.ElementDG(eu())
    db = CellBasis(m, edg, intorder=4)
    mass = BilinearForm(lambda u, v, w: u * v * (1 + w.x[0] ** 2))
    Mel = mass.elemental(db)
    Minv = Mel.inverse().toarray()
    Md = Mel.toarray()
    out.ev()
    if np.abs(Minv @ Md - np.eye(db.N)).max() > 1e-9:
        bad('inverse', "COOData.inverse() of a block-diagonal (DG) mass matrix is not its inverse")
    try:
        Sinv = (Mel + Mel).inverse().toarray()
        if np.abs(Sinv @ (2 * Md) - np.eye(db.N)).max() > 1e-9:
            bad('add-inverse', "(M + M).inverse() of elemental mass data is not the inverse of 2 M")
    except NotImplementedError:
        out.count('inverse_of_a_sum_refused')
    except Exception as e:
        bad('add-inverse-exception', repr(e))
    # facet tolocal(basis): sums facet matrices into elemental matrices
    if kind != 'wedge':
        fb = FacetBasis(m, ev(), intorder=4)
        fm = BilinearForm(lambda u, v, w: u * v * (1 + w.x[0]))
        Fel = fm.elemental(fb)
        try:
            loc = Fel.tolocal(basis=fb)
            nt = m.t.shape[1]
            Nb = fb.Nbfun
            ref = np.zeros((nt, Nb, Nb))
            w = None
            from skfem.assembly.form.form import FormExtraParams
            w = FormExtraParams(fb.default_parameters())
            for j in range(Nb):
                for i in range(Nb):
                    vals = (fm.form(fb.basis[j][0], fb.basis[i][0], w) * fb.dx).sum(axis=1)
                    np.add.at(ref[:, i, j], fb.tind, vals)
            out.ev()
            if loc.shape != ref.shape or np.abs(loc - ref).max() > 1e-12 * (1 + np.abs(ref).max()):
                bad('tolocal-facets', "tolocal(basis=FacetBasis) does not sum the facet matrices of each cell")
        except Exception as e:
            bad('tolocal-facets-exception', repr(e))
    # bmat
    from skfem.utils import bmat
    A11 = form.assemble(ub)
    A12 = form.assemble(vb, ub)
    A21 = form.assemble(ub, vb)
    A22 = form.assemble(vb)
    B = bmat([[A11, A12], [A21, A22]], 'csr')
    W = sp.bmat([[A11, A12], [A21, A22]], 'csr')
    out.ev()
    if (abs(B - W)).nnz or list(B.blocks) != [ub.N]:
        bad('bmat', f"utils.bmat differs from scipy.sparse.bmat or block offsets {list(getattr(B, 'blocks', []))} != {[ub.N]}")
    B2 = bmat([[A11, None], [A21, A22]], 'csr')
    if B2.shape != W.shape:
        bad('bmat-none', "utils.bmat with a None block has the wrong shape")
    # three and four block columns of different widths: offsets are the cumulative widths
    from skfem import CellBasis as _CB
    p0 = {'line': E.ElementLineP0, 'tri': E.ElementTriP0, 'quad': E.ElementQuad0, 'tet': E.ElementTetP0, 'hex': E.ElementHex0}[kind]
    zb = _CB(m, p0(), intorder=4)
    mk = lambda tb_, sb__: BilinearForm(lambda u, v, w: u * v).assemble(tb_, sb__)      # noqa: E731
    bases = [ub, vb, zb, vb]
    for ncol in (3, 4):
        bs = bases[:ncol]
        rows = [[mk(cb_, rb_) for cb_ in bs] for rb_ in bs]
        rows[0][1] = None
        Bn = bmat(rows, 'csr')
        Wn = sp.bmat(rows, 'csr')
        want = list(np.cumsum([b_.N for b_ in bs])[:-1])
        out.ev()
        if (abs(Bn - Wn)).nnz or [int(x) for x in Bn.blocks] != [int(x) for x in want]:
            bad('bmat-offsets', f"utils.bmat with {ncol} block columns of widths {[b_.N for b_ in bs]}: .blocks = "
                f"{[int(x) for x in Bn.blocks]}, cumulative offsets are {[int(x) for x in want]}")
        else:
            out.nt((sname, lab, 'bmat', ncol))
    out.sample({'mesh': f'{sname}:{lab}', 'sub-check': 'COOData', 'trial': reps[0], 'test': reps[1]}, 1)
