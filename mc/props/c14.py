"""C14 - point location and point evaluation of discrete functions are exact.

Mesh states x designated points (vertices, facet/edge midpoints, centroids, interior lattice,
points in holes / notches / gaps, outside) x query shapes x catalogue x all unit vectors.
"""
from __future__ import annotations

import itertools
import warnings
from fractions import Fraction as Fr

import numpy as np

from ..report import Out
from .. import meshspace as ms
from .. import meshops as mo
from .. import catalogue as cat
from ..topo import REF, KIND_OF_CLASS, Topo

ID = 'C14'
# sub-checks added after the seeded-change waves (DESIGN.md sections 5 and 6)
EXTENSIONS = [
    'far-translated variant; refined-stretched variant (nearest centroids do not contain the point); Fortran / transposed / strided point arrays; dyadic facet weights',
]
LEVEL = 'exploration'
TECHNIQUE = "small-scope exhaustive enumeration (mesh states x designated points x query shapes x catalogue x all unit vectors) with exact containment oracle"
LEVEL_TEXT = ("For every first-order seed with convex cells (plus renumbered, mirrored, anisotropically scaled, uniformly and "
              "adaptively refined variants; non-convex domains, holes, several components; thorough: refined until the KD-tree "
              "candidate cut-off is exceeded) the finder is queried at ALL vertices, all facet / edge midpoints, all centroids, an "
              "interior lattice of every cell and at designated outside points (holes, notches, gaps between components, just "
              "outside the boundary, outside the bounding box), as single points, all at once, reversed and duplicated. Oracle: "
              "exact Fraction point-in-cell test of the returned cell (any containing cell accepted on shared facets); outside "
              "points must raise. For every catalogue element (scalar, vector, matrix-valued, DG, global) and ALL unit vectors: "
              "probes(x) e_k equals the local expansion of the located cell evaluated through the element / mapping API; "
              "probes(quadrature points) y == interpolate(y); interpolator (incl. trailing axes) and point_source agree.")
LEVEL_NOTE = ("Hexahedra have planar faces (the finder's tetrahedral split is exact there); outside points are at least 2^-20 away "
              "from the domain; evaluation tolerance 1e-9 * scale (Newton inverse on non-affine cells).")
RULE = ("case = (mesh state, point) for location; (mesh state, element, point set, unit vector) for evaluation. non-trivial = "
        "distinct located point lying in >= 2 cells' closure or strictly inside a cell of a mesh with >= 2 cells; distinct "
        "(state, element) with a non-zero probe matrix.")
ASSUMPTIONS = ["first-order meshes with convex straight cells", "composite elements: probes not supported by the library (counted)"]
BOUNDS = {'quick': {'variants': 'plain, vswap, mirrored, scaled(8,1/8), refined, adaptive', 'lattice': 3},
          'thorough': {'variants': 'quick + refined(2), refined(3) on 2-D seeds', 'lattice': 4}}
ITEM_TIMEOUT = {'quick': 900, 'thorough': 7200}
SEEDS = {'line': ['L3', 'L2c', 'Lrev'], 'tri': ['T2', 'TL6', 'Tring8', 'T3comp'], 'quad': ['Q2', 'Q4gen', 'Qring8'],
         'tet': ['K2', 'K5', 'K6'], 'hex': ['H2', 'H4'], 'wedge': ['W2', 'W4']}
# designated outside points per seed (holes, notches, gaps)
OUTSIDE = {'L2c': [[1.5]], 'TL6': [[1.5, 1.5]], 'Tring8': [[1.5, 1.5]], 'T3comp': [[2.5, 2.5], [1.5, .75]], 'Qring8': [[1.5, 1.5]]}


def variants(st0, tier):
    dim = st0.p.shape[0]
    out = [('plain', lambda: st0.build())]
    raws = list(ms.raw_transitions(st0, max_vertex_swaps=1))
    for pref in ('vswap', 'cswap', 'lorder'):
        r = [x for x in raws if x[0].startswith(pref)][:1]
        for lab, nx in r:
            out.append((lab, (lambda nx: lambda: nx.build())(nx)))
    out.append(('mirrored', lambda: st0.build().mirrored(tuple([1.] + [0.] * (dim - 1)))))
    out.append(('scaled', lambda: st0.build().scaled(tuple([8., .125, 2.][:dim]))))
    # far from the origin in non-dyadic units (map coordinates): vertex coordinates are rounded, cells stay well shaped
    out.append(('far', lambda: st0.build().translated(tuple([500.3, -300.7, 200.1][:dim]))))
    if st0.kind != 'wedge':
        out.append(('refined', lambda: st0.build().refined()))
    if st0.kind not in ('wedge', 'line'):
        # many long thin cells: the cells with the nearest centroids do not contain the point, the exhaustive fallback of the
        # finders has to find it (in every cell, the last one included)
        out.append(('refined-stretched', lambda: st0.build().refined().scaled(tuple([1., 64., 1.][:dim]))))
    if st0.kind in ('line', 'tri', 'tet'):
        out.append(('adaptive', lambda: st0.build().refined(np.array([0])).refined(np.array([0, 1]))))
    if tier == 'thorough' and st0.kind in ('line', 'tri', 'quad'):
        out.append(('refined2', lambda: st0.build().refined(2)))
        out.append(('refined3', lambda: st0.build().refined(3)))
    if tier == 'thorough' and st0.kind in ('tet',) and st0.nt <= 3:
        out.append(('refined2', lambda: st0.build().refined(2)))
    return out


def items(tier, seed):
    its = []
    for kind, names in SEEDS.items():
        for n in names:
            st0 = ms.seeds(seed)[n]
            for lab, _ in variants(st0, tier):
                its.append((n, lab, 'locate'))
            for lab in ('plain', 'scaled', 'far', 'refined' if kind != 'wedge' else 'mirrored'):
                its.append((n, lab, 'evaluate'))
    return its


def cost(item):
    return {'H4': 8, 'H2': 5, 'K6': 5, 'K5': 4, 'Qring8': 2, 'Tring8': 2, 'W4': 3}.get(item[0], 1) * (
        3 if item[2] == 'evaluate' else 1) * (3 if item[1].startswith('refined') else 1)


def transform_points(lab, pts, dim):
    pts = np.array(pts, dtype=float).T.reshape(dim, -1)
    if lab == 'mirrored':
        pts = pts.copy()
        pts[0] = -pts[0]
    elif lab == 'scaled':
        pts = pts * np.array([8., .125, 2.][:dim])[:, None]
    return pts


def designated_points(m, kind, T, nlat):
    nn = REF[kind]['nn']
    p, t = m.p, m.t[:nn]
    pts = [p[:, v] for v in T.vertices]
    labels = [f'vertex {v}' for v in T.vertices]
    fac = m.facets
    if kind != 'line':
        for j in range(fac.shape[1]):
            vs = sorted(set(int(v) for v in fac[:, j]))
            # dyadic convex weights so that the point lies exactly on the facet in floating point
            w = {1: [1.], 2: [.5, .5], 3: [.5, .25, .25], 4: [.25, .25, .25, .25]}[len(vs)]
            pts.append(p[:, vs] @ np.array(w))
            labels.append(f'facet {j} midpoint')
    if REF[kind]['edges'] is not None:
        for j in range(m.edges.shape[1]):
            pts.append(p[:, m.edges[:, j]].mean(axis=1))
            labels.append(f'edge {j} midpoint')
    g = [(i + 1.) / (nlat + 1) for i in range(nlat)]
    lam_sets = []
    for c in range(t.shape[1]):
        P = p[:, t[:, c]]
        pts.append(P.mean(axis=1))
        labels.append(f'cell {c} centroid')
        # interior lattice through (dyadic) convex combinations of the vertices
        for k, w in enumerate(itertools.product(g, repeat=min(nn - 1, 2))):
            lam = np.ones(nn)
            lam[:len(w)] += np.array(w) * 4
            lam[-1] += (k % 3)
            lam /= lam.sum()
            pts.append(P @ lam)
            labels.append(f'cell {c} interior {k}')
    return np.array(pts).T, labels


def containing_cells(kind, G, x, cand):
    xf = tuple(Fr(float(c)) for c in x)
    return [c for c in cand if mo.point_in_closed_cell(kind, G.cell_pts(c), xf)]


def get_state(name, lab, seed, tier):
    st0 = ms.seeds(seed)[name]
    for l, b in variants(st0, tier):
        if l == lab:
            return st0, b()
    raise KeyError(lab)


def work(item, tier, seed):
    name, lab, mode = item
    out = Out()
    out.set_item(item)
    warnings.simplefilter('ignore')
    st0, m = get_state(name, lab, seed, tier)
    if mode == 'locate':
        locate(st0, m, name, lab, tier, out)
    else:
        evaluate(st0, m, name, lab, tier, out)
    return out


def locate(st0, m, name, lab, tier, out):
    kind = st0.kind
    dim = REF[kind]['dim']
    nn = REF[kind]['nn']
    cls = type(m).__name__
    T = Topo(kind, m.t)
    G = mo.Geo(kind, m.p, m.t)
    nt = m.t.shape[1]
    sig0 = f"C14|{cls}|finder|"

    def bad(what, msg, **kw):
        out.violation(sig0 + what, f"{msg} [seed {name}, variant {lab}]", case=dict(seed=name, variant=lab, **kw))
    X, labels = designated_points(m, kind, T, BOUNDS[tier]['lattice'])
    finder = m.element_finder()
    lo = np.array([m.p[:, m.t[:nn, c]].min(axis=1) for c in range(nt)])
    hi = np.array([m.p[:, m.t[:nn, c]].max(axis=1) for c in range(nt)])

    def cands(x):
        return np.nonzero(((x >= lo - 1e-9) & (x <= hi + 1e-9)).all(axis=1))[0]
    npts = X.shape[1]
    truth = []
    for k in range(npts):
        cc = containing_cells(kind, G, X[:, k], cands(X[:, k]))
        truth.append(cc)
        if not cc and lab == 'far':
            continue        # rounding moved a designated boundary point out of every cell: not a point of the domain
        if not cc:
            out.harness_error(f"designated point {labels[k]} {X[:, k].tolist()} lies in no cell ({name}:{lab})")
            return
    if lab == 'far':
        keep = [k for k in range(npts) if truth[k]]
        out.count('far_points_rounded_out_of_the_domain', npts - len(keep))
        X, labels, truth = X[:, keep], [labels[k] for k in keep], [truth[k] for k in keep]
        npts = len(keep)

    # query shapes: single, all, reversed, duplicated
    def run(xq, idx, shape_label):
        try:
            cells = np.asarray(finder(*xq))
        except Exception as e:
            # locate the culprit with single queries
            for k in idx:
                try:
                    finder(*X[:, [k]])
                except Exception as e1:
                    bad('raises-inside', f"finder raised {e1!r} for {labels[k]} {X[:, k].tolist()}, a point of the domain "
                        f"(cells {truth[k][:3]}), query shape {shape_label}", point=X[:, k].tolist(), label=labels[k])
                    return False
            bad('raises-inside', f"finder raised {e!r} for a {shape_label} query of domain points", shape=shape_label)
            return False
        if cells.shape != (len(idx),):
            bad('shape', f"finder returned shape {cells.shape} for {len(idx)} points ({shape_label})")
            return False
        for q, k in enumerate(idx):
            out.ev()
            if int(cells[q]) not in truth[k]:
                bad('wrong-cell', f"finder returned cell {int(cells[q])} for {labels[k]} {X[:, k].tolist()} which lies in cells "
                    f"{truth[k][:4]} ({shape_label} query)", point=X[:, k].tolist(), label=labels[k])
                return False
        return True
    ok = True
    for k in range(npts):
        ok = run(X[:, [k]], [k], 'single')
        if not ok:
            break
        if len(truth[k]) >= 2 or nt >= 2:
            out.nt((name, lab, labels[k]))
    if ok:
        allidx = list(range(npts))
        ok = run(X, allidx, 'all') and run(X[:, ::-1], allidx[::-1], 'reversed') and \
            run(np.repeat(X, 2, axis=1), [k for k in allidx for _ in (0, 1)], 'duplicated')
    out.outcome((cls, nt, npts))
    # outside points
    outs = []
    if name in OUTSIDE and lab in ('plain', 'vswap(0,1)', 'cswap(0,1)', 'mirrored', 'scaled', 'refined', 'refined2', 'refined3',
                                   'adaptive') or name in OUTSIDE and lab.startswith('lorder'):
        outs += [transform_points(lab, [q], dim)[:, 0] for q in OUTSIDE[name]]
    bmin, bmax = m.p.min(axis=1), m.p.max(axis=1)
    outs.append(bmax + 1.0)
    outs.append(bmin - 0.5)
    # just outside the boundary: facet midpoint pushed outwards along the (exact) direction away from the cell centroid
    bfs = m.boundary_facets()
    for j in list(bfs)[:6]:
        vs = sorted(set(int(v) for v in m.facets[:, j]))
        mid = m.p[:, vs].mean(axis=1)
        c = int(m.f2t[0, j])
        cen = m.p[:, m.t[:nn, c]].mean(axis=1)
        q = mid + (mid - cen) * 2.0 ** -12
        outs.append(q)
    for q in outs:
        q = np.asarray(q, dtype=float)
        if containing_cells(kind, G, q, cands(q)):
            continue            # (a pushed point may fall into a neighbouring cell of a non-convex domain)
        out.ev()
        try:
            r = finder(*q[:, None])
            bad('outside-not-raised', f"finder returned cell {np.asarray(r).tolist()} for the point {q.tolist()} outside the mesh",
                point=q.tolist())
            break
        except Exception:
            out.nt((name, lab, 'outside', tuple(q.tolist())))
        # an outside point inside a batch of inside points must raise too
        try:
            r = finder(*np.hstack((X[:, :3], q[:, None])))
            bad('outside-not-raised', f"finder returned cells for a batch containing the outside point {q.tolist()}",
                point=q.tolist())
            break
        except Exception:
            pass
    out.sample({'seed': name, 'variant': lab, 'class': cls, 'cells': int(nt), 'inside_points': int(npts),
                'outside_points': len(outs)}, 1)


def evaluate(st0, m, name, lab, tier, out):
    from skfem import CellBasis
    kind = st0.kind
    dim = REF[kind]['dim']
    nn = REF[kind]['nn']
    cls = type(m).__name__
    T = Topo(kind, m.t)
    G = mo.Geo(kind, m.p, m.t)
    nt = m.t.shape[1]
    X, labels = designated_points(m, kind, T, 2)
    # keep evaluation affordable on refined meshes: a spread subset of the points
    if X.shape[1] > 60:
        sel = np.unique(np.linspace(0, X.shape[1] - 1, 60).astype(int))
        X = np.ascontiguousarray(X[:, sel])
        labels = [labels[i] for i in sel]
    try:
        cells = np.asarray(m.element_finder()(*X))
    except Exception:
        out.count('finder_raised_in_evaluate (reported by the locate items)')
        # drop the points that raise
        keep = []
        for k in range(X.shape[1]):
            try:
                m.element_finder()(*X[:, [k]])
                keep.append(k)
            except Exception:
                pass
        X = np.ascontiguousarray(X[:, keep])
        labels = [labels[k] for k in keep]
        try:
            cells = np.asarray(m.element_finder()(*X))
        except Exception:
            # the batch still raises although every single query succeeds (reported by the locate items): go point by point
            cells = np.array([int(np.asarray(m.element_finder()(*X[:, [k]]))[0]) for k in range(X.shape[1])], dtype=np.int64)
    npts = X.shape[1]
    interior = np.array([k for k in range(npts) if labels[k].startswith('cell ')])
    for ent in cat.entries(kind, wrappers=True):
        if ent.family == 'unclassified' or ent.kind != kind:
            continue
        if ent.wrapper == 'composite':
            out.count('composite_probes_unsupported')
            continue
        if ent.name in cat.AXIS_ALIGNED_ONLY or any(s in ent.name for s in ('HexC1',)):
            continue
        sig0 = f"C14|{cls}|{ent.name}|"
        case0 = dict(seed=name, variant=lab, element=ent.name)

        def bad(what, msg):
            out.violation(sig0 + what, f"{msg} [element {ent.name}, seed {name}, variant {lab}]", case=case0)
        try:
            b = CellBasis(m, ent.make())
        except Exception:
            out.count('basis_unsupported:' + ent.name)
            continue
        N = b.N
        try:
            P = b.probes(X)
        except Exception as e:
            if ent.name == 'ElementTriN3':
                out.count('probes_unsupported:ElementTriN3 (per-cell point layout not implemented: loud)')
            else:
                bad('probes-exception', repr(e))
            continue
        # expected: local expansion of the located cell, through element.gbasis on a fresh element
        elem = ent.make()
        mp = b.mapping
        Y = mp.invF(X[:, :, None], tind=cells)
        ed = b.element_dofs
        first = np.asarray(elem.gbasis(mp, Y, 0, tind=cells)[0])
        comp_shape = first.shape[:-2]
        comp = int(np.prod(comp_shape)) if comp_shape else 1
        E = np.zeros((comp * npts, N))
        for j in range(b.Nbfun):
            val = np.asarray(elem.gbasis(mp, Y, j, tind=cells)[0])          # (comp.., npts, 1)
            val = np.broadcast_to(val, comp_shape + (npts, 1)).reshape(comp, npts)
            for q in range(npts):
                E[np.arange(comp) * npts + q, ed[j, cells[q]]] += val[:, q]
        Pd = P.toarray()
        out.ev(N)
        scale = 1 + np.abs(E).max()
        if Pd.shape != E.shape:
            bad('probes-shape', f"probes matrix has shape {Pd.shape}, expected {E.shape} (components x points, N)")
            continue
        if np.abs(Pd - E).max() > 1e-9 * scale:
            r, k = np.unravel_index(np.abs(Pd - E).argmax(), E.shape)
            q = r % npts
            bad('probes-values', f"probes(x) e_{k} = {Pd[r, k]!r} at {labels[q]} {X[:, q].tolist()} (component {r // npts}) but the "
                f"local expansion of cell {int(cells[q])} gives {E[r, k]!r}")
            continue
        if np.abs(E).max() > 0:
            out.nt((name, lab, ent.name))
        # permuted / duplicated queries: on points with a unique containing cell (on shared facets the located
        # cell may legitimately depend on the batch, and discontinuous elements then evaluate differently)
        perm = interior[::-1]
        Pp = b.probes(np.ascontiguousarray(X[:, perm])).toarray()
        rows = (np.arange(comp)[:, None] * npts + perm[None, :]).flatten()
        if Pp.shape != (comp * len(perm), N) or np.abs(Pp - E[rows]).max() > 1e-9 * scale:
            bad('probes-order', "probes of the reversed point list is not the row-permuted matrix")
        d4 = interior[:4]
        Xd = np.repeat(X[:, d4], 2, axis=1)
        Pdup = b.probes(Xd).toarray()
        rows = (np.arange(comp)[:, None] * npts + np.repeat(d4, 2)[None, :]).flatten()
        if Pdup.shape != (comp * 2 * len(d4), N) or np.abs(Pdup - E[rows]).max() > 1e-9 * scale:
            bad('probes-duplicates', "probes with repeated points differs from the repeated rows")
        # interpolator incl. trailing axes, point_source
        y = 1.0 + np.arange(N) % 5 + 0.25 * np.arange(N)
        want = (E @ y).reshape(comp_shape + (npts,))
        try:
            got = b.interpolator(y)(X)
            if np.asarray(got).shape != want.shape or np.abs(got - want).max() > 1e-8 * (1 + np.abs(want).max()):
                bad('interpolator', "interpolator(y)(x) differs from the local expansions")
            if len(interior) >= 4 and not comp_shape:
                x3 = X[:, interior[:4]].reshape(dim, 2, 2)
                got3 = b.interpolator(y)(x3)
                if np.asarray(got3).shape != (2, 2) or np.abs(got3 - want[interior[:4]].reshape(2, 2)).max() > 1e-8 * (1 + np.abs(want).max()):
                    bad('interpolator-trailing-axes', "interpolator with trailing axes returns wrong shape or values")
                # the same points in other memory layouts (Fortran order, transposed view of a point-major grid, strided
                # view): the VALUES of x decide, not its strides
                if len(interior) >= 6:
                    x6 = X[:, interior[:6]].reshape(dim, 2, 3)
                    w6 = want[interior[:6]].reshape(2, 3)
                    layouts = [('fortran', np.asfortranarray(x6)), ('transposed-view', np.ascontiguousarray(x6.transpose(1, 2, 0)).transpose(2, 0, 1)),
                               ('strided', np.repeat(x6, 2, axis=2)[:, :, ::2])]
                    for ll, xl in layouts:
                        gl = b.interpolator(y)(xl)
                        if np.asarray(gl).shape != (2, 3) or np.abs(gl - w6).max() > 1e-8 * (1 + np.abs(want).max()):
                            bad('interpolator-trailing-axes', f"interpolator with trailing axes on a {ll} point array returns wrong "
                                f"shape or values (values assigned to the wrong points?)")
                            break
            if not comp_shape:
                ps = b.point_source(X[:, interior[0]])
                if ps.shape != (N,) or np.abs(ps - E[interior[0]]).max() > 1e-9 * scale:
                    bad('point_source', "point_source(x) differs from the probe row of x")
        except Exception as e:
            bad('interpolator-exception', repr(e))
        # probes at the quadrature points reproduce interpolate
        try:
            xq = np.asarray(b.global_coordinates())              # (dim, nt, nq)
            nq = xq.shape[2]
            xf = xq.reshape(dim, -1)
            # quadrature points are strictly interior: the located cell is the cell itself
            u = b.interpolate(y)
            uv = np.asarray(u)
            pv = (b.probes(xf) @ y).reshape(comp_shape + (nt, nq))
            out.ev()
            if np.abs(pv - uv).max() > 1e-8 * (1 + np.abs(uv).max()):
                bad('probes-vs-interpolate', f"probes(quadrature points) y differs from interpolate(y) by {np.abs(pv - uv).max():.3e}")
        except Exception as e:
            bad('probes-vs-interpolate-exception', repr(e))
        out.outcome((cls, ent.name, comp))
    out.sample({'seed': name, 'variant': lab, 'class': cls, 'points': int(npts)}, 1)
