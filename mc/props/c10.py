"""C10 - reference maps, Jacobians, facet maps and normals are mutually consistent.

(a) invariants of one query on every mesh state / point layout / cell-subset form;
(b) explicit-state exploration of ordered pairs (thorough: triples) of queries on ONE mapping
    object, each compared with the same query on a fresh mapping (cache-state model).
"""
from __future__ import annotations

import itertools
import math

import numpy as np

from ..report import Out
from .. import meshspace as ms
from ..topo import REF, Topo, KIND_OF_CLASS, mesh_measure
from .. import exact as ex

ID = 'C10'
# sub-checks added after the seeded-change waves (DESIGN.md sections 5 and 6)
EXTENSIONS = [
    'FacetBasis / InteriorFacetBasis normals and dx; exact trilinear volume on non-planar hexahedra; tiny length unit (2^-30); restricted MappingAffine(mesh, tind=I)',
]
LEVEL = 'model_checking'
TECHNIQUE = "state invariants on MeshSpace x query forms; explicit-state exploration of query sequences on one mapping object vs fresh mapping"
LEVEL_TEXT = ("Part (a): for every seed mesh of every class (plus mirrored, renumbered/locally reordered and straight and curved "
              "second-order variants) and every way of passing points (shared, per-cell) and cell/facet subsets (None, every "
              "singleton, reversed, a pair, int32/int64), the identities invF.F = id, DF = finite-difference derivative of F "
              "(exact: F is polynomial of per-direction degree <= 2), invDF.DF = I, detDF = det(DF), G lands on the facet slot "
              "named by t2f with sum(detDG w) = facet measure, normals unit / orthogonal to facet tangents / outward, "
              "divergence theorem per cell and per mesh, affine == isoparametric on straight simplices. Part (b): states = "
              "(mesh, cache contents of the mapping object), transitions = queries from an alphabet built to force cache-key "
              "collisions (same bytes, different shape or dtype); all ordered pairs (triples in thorough) are run on one object "
              "and every answer is compared with a fresh mapping.")
LEVEL_NOTE = ("Newton inverse compared to 1e-9; other identities to 1e-11 relative; curved meshes use small dyadic displacements "
              "of mid-edge nodes so that cells stay valid; prisms have no boundary reference cell (facet map / normals not "
              "evaluated there).")
RULE = ("(a) case = (mesh variant, mapping kind, query form). (b) state = history of queries on one mapping object; transition = "
        "query. non-trivial = distinct case with >= 2 cells, or distinct query sequence whose last query hits a cache entry "
        "written by an earlier query with different arguments (detected by comparing cache size).")
ASSUMPTIONS = ["straight-sided seeds have dyadic coordinates; curved variants displace mid-edge nodes by <= 1/16",
               "PYTHONHASHSEED is fixed by the wrapper so that byte-hash collisions are reproducible"]
BOUNDS = {'quick': {'sequence_length': 2, 'raw_variants': 'local-order + first vertex swap'},
          'thorough': {'sequence_length': 3, 'raw_variants': 'all depth-1 raw deviations on <= 4-cell seeds'}}
ITEM_TIMEOUT = {'quick': 900, 'thorough': 3600}
H = 2.0 ** -7
FD = np.array([-1 / 60, 3 / 20, -3 / 4, 0, 3 / 4, -3 / 20, 1 / 60]) / H
ORDER2 = {'MeshTri1': 'MeshTri2', 'MeshQuad1': 'MeshQuad2', 'MeshTet1': 'MeshTet2', 'MeshHex1': 'MeshHex2'}


def variants(seedname, seed, tier, extra=False):
    """Mesh variants of one seed: label -> builder."""
    st0 = ms.seeds(seed)[seedname]
    out = [('plain', lambda: st0.build())]
    dim = st0.p.shape[0]
    out.append(('mirrored', lambda: st0.build().mirrored(tuple([1.] + [0.] * (dim - 1)))))
    if extra:
        # the same cells in a tiny length unit (exact power of two): identities in reference coordinates are unit-free
        out.append(('scaled-tiny', lambda: st0.build().scaled(2.0 ** -30)))
    raws = list(ms.raw_transitions(st0, cell_swaps=False, max_vertex_swaps=1 if tier == 'quick' else None))
    if tier == 'quick':
        raws = raws[:4]
    elif st0.nt > 4:
        raws = raws[:8]
    for lab, nx in raws:
        out.append((lab, (lambda nx: lambda: nx.build())(nx)))
    if st0.cls in ORDER2:
        import skfem.mesh as M
        cls2 = getattr(M, ORDER2[st0.cls])
        out.append(('order2-straight', lambda: cls2.from_mesh(st0.build())))

        def curved():
            m2 = cls2.from_mesh(st0.build())
            p = m2.doflocs.copy()
            nv = int(m2.t.max()) + 1
            offs = [np.array([1 / 32, -1 / 64, 1 / 64][:dim]), np.array([-1 / 64, 1 / 32, -1 / 32][:dim])]
            for k in range(nv, p.shape[1]):
                p[:, k] += offs[(k + seed) % 2] * (1 if k % 3 else .5)
            from dataclasses import replace
            return replace(m2, doflocs=p)
        out.append(('order2-curved', curved))
    return out


def items(tier, seed):
    its = []
    for name in ms.seeds(seed):
        for lab, _ in variants(name, seed, tier, extra=True):
            its.append(('inv', name, lab))
    for name in ('L3', 'T2', 'Q2', 'K2', 'H2'):
        its.append(('seq', name, 'plain'))
        if name in ('T2', 'Q2', 'K2', 'H2'):
            its.append(('seq', name, 'order2-curved'))
    return its


def cost(item):
    return (20 if item[0] == 'seq' else 1) * {'H4': 6, 'H2': 4, 'K6': 3, 'K5': 3, 'W4': 2}.get(item[1], 1)


def ref_lattice(kind):
    dim = REF[kind]['dim']
    g = [0., .25, .625, 1.]
    pts = []
    for q in itertools.product(g, repeat=dim):
        if kind in ('tri', 'tet') and sum(q) > 1:
            continue
        if kind == 'wedge' and q[0] + q[1] > 1:
            continue
        pts.append(q)
    return np.array(pts).T


def facet_quadrature(kind):
    from skfem.quadrature import get_quadrature
    from skfem import refdom as rd
    R = {'line': rd.RefPoint, 'tri': rd.RefLine, 'quad': rd.RefLine, 'tet': rd.RefTri, 'hex': rd.RefQuad}[kind]
    return get_quadrature(R, 6)


def get_mesh(name, lab, seed, tier):
    for l, b in variants(name, seed, tier, extra=True):
        if l == lab:
            return b()
    raise KeyError(lab)


def mappings_for(m):
    from skfem.mapping import MappingAffine, MappingIsoparametric
    out = [('default', lambda: type(m._mapping())(m) if isinstance(m._mapping(), MappingAffine)
            else MappingIsoparametric(m, m.elem(), m.bndelem))]
    if isinstance(m._mapping(), MappingAffine):
        out.append(('isoparametric', lambda: MappingIsoparametric(m, m.elem(), m.bndelem)))
    return out


def work(item, tier, seed):
    out = Out()
    out.set_item(item)
    mode, name, lab = item
    import warnings
    warnings.simplefilter('ignore')
    m = get_mesh(name, lab, seed, tier)
    if mode == 'inv':
        invariants(m, name, lab, out)
    else:
        sequences(m, name, lab, tier, out)
    return out


# ---------------------------------------------------------------------------------------
# (a) single-query invariants
# ---------------------------------------------------------------------------------------

def invariants(m, name, lab, out):
    cls = type(m).__name__
    kind = KIND_OF_CLASS[cls]
    dim = REF[kind]['dim']
    nt = m.t.shape[1]
    curved = lab == 'order2-curved'
    X = ref_lattice(kind)
    nq = X.shape[1]
    case0 = {'seed': name, 'variant': lab, 'class': cls}
    results = {}
    for mlab, mk in mappings_for(m):
        mp = mk()
        sig0 = f"C10|{cls}|{type(mp).__name__}|"

        def bad(what, msg, mlab=mlab):
            out.violation(sig0 + what, f"{msg} [seed {name}, variant {lab}, mapping {mlab}]", case=dict(case0, mapping=mlab))
        out.ev()
        try:
            x = mp.F(X)
            DF = mp.DF(X)
            iDF = mp.invDF(X)
            det = mp.detDF(X)
        except Exception as e:
            bad('exception', repr(e))
            continue
        if x.shape != (dim, nt, nq) or DF.shape != (dim, dim, nt, nq) or iDF.shape != DF.shape or det.shape != (nt, nq):
            bad('shapes', f"F {x.shape} DF {DF.shape} invDF {iDF.shape} detDF {det.shape}")
            continue
        results[mlab] = (x, DF, iDF, det)
        scale = 1 + np.abs(m.p).max()
        # vertices: F(reference vertex k) == p[:, t[k]]
        Rp = m.elem.refdom.p
        xv = mp.F(Rp)
        for k in range(REF[kind]['nn']):
            if np.abs(xv[:, :, k] - m.p[:, m.t[k]]).max() > 1e-13 * scale:
                bad('F-vertices', f"F(reference vertex {k}) is not vertex t[{k}]")
                break
        # DF == finite-difference derivative of F (F polynomial of degree <= 2 per direction)
        for d in range(dim):
            acc = 0
            for k in (-3, -2, -1, 1, 2, 3):
                Xs = X.copy()
                Xs[d] += k * H
                acc = acc + FD[k + 3] * mp.F(Xs)
            if np.abs(acc - DF[:, d]).max() > 1e-10 * scale:
                bad('DF-not-derivative', f"DF[:, {d}] differs from the derivative of F by {np.abs(acc - DF[:, d]).max():.2e}")
                break
        I = np.einsum('ijcq,jkcq->ikcq', iDF, DF)
        if np.abs(I - np.eye(dim)[:, :, None, None]).max() > 1e-10:
            bad('invDF', f"invDF.DF differs from I by {np.abs(I - np.eye(dim)[:, :, None, None]).max():.2e}")
        dnp = np.linalg.det(np.moveaxis(DF, (0, 1), (-2, -1)))
        if np.abs(dnp - det).max() > 1e-11 * (1 + np.abs(det).max()):
            bad('detDF', f"detDF differs from det(DF) by {np.abs(dnp - det).max():.2e}")
        # inverse map (per-cell layout of physical points)
        try:
            Xb = mp.invF(x, tind=np.arange(nt, dtype=np.int32))
            if np.abs(Xb - X[:, None, :]).max() > 1e-9:
                bad('invF', f"invF(F(X)) differs from X by {np.abs(Xb - X[:, None, :]).max():.2e}")
        except Exception as e:
            bad('invF-exception', repr(e))
        # per-cell layout == shared layout
        Xc = np.repeat(X[:, None, :], nt, axis=1)
        tall = np.arange(nt, dtype=np.int32)
        for fname, full in (('F', x), ('DF', DF), ('invDF', iDF), ('detDF', det)):
            try:
                got = getattr(mp, fname)(Xc, tall)
                if got.shape != full.shape or np.abs(got - full).max() > 1e-12 * scale:
                    bad('layouts-disagree', f"{fname} with per-cell points differs from shared points")
            except Exception as e:
                bad('per-cell-exception', f"{fname}: {e!r}")
        # genuinely different points per cell
        Xd = np.stack([np.roll(X, c + 1, axis=1) for c in range(nt)], axis=1)
        try:
            got = mp.F(Xd, tall)
            for c in range(nt):
                want = np.roll(x[:, c, :], c + 1, axis=1)
                if np.abs(got[:, c] - want).max() > 1e-12 * scale:
                    bad('per-cell-points', f"F with different points per cell is wrong in cell {c}")
                    break
        except Exception as e:
            bad('per-cell-exception', f"F: {e!r}")
        # cell subsets in every form
        subsets = [np.array([c]) for c in range(nt)] + [np.arange(nt)[::-1]]
        if nt >= 2:
            subsets.append(np.array([nt - 1, 0]))
        for S in subsets:
            for dt in (np.int32, np.int64):
                tind = S.astype(dt)
                out.ev()
                for fname, full, ax in (('F', x, 1), ('DF', DF, 2), ('invDF', iDF, 2), ('detDF', det, 0)):
                    try:
                        got = getattr(mp, fname)(X, tind)
                    except Exception as e:
                        bad('subset-exception', f"{fname}(X, tind={tind.tolist()} {dt.__name__}): {e!r}")
                        continue
                    want = np.take(full, S, axis=ax)
                    if got.shape != want.shape or np.abs(got - want).max() > 1e-12 * scale:
                        bad('subset', f"{fname}(X, tind={tind.tolist()} {dt.__name__}) differs from slicing the full result")
        # the memory-saving affine mapping built for a cell subset ("tind is ignored in its methods"): every method answers for
        # exactly those cells, in the given order, whatever tind is passed
        if type(mp).__name__ == 'MappingAffine' and nt >= 2:
            from skfem.mapping import MappingAffine as _MA
            for S in (np.array([nt - 1, 0]), np.arange(nt)[::-1].copy(), np.array([nt - 1])):
                try:
                    mr = _MA(m, tind=S.astype(np.int32))
                    out.ev()
                    for fname, full, ax in (('F', x, 1), ('DF', DF, 2), ('invDF', iDF, 2), ('detDF', det, 0)):
                        want = np.take(full, S, axis=ax)
                        for tl, targ in (('tind omitted', None), ('tind=cells', S.astype(np.int32))):
                            got = getattr(mr, fname)(X) if targ is None else getattr(mr, fname)(X, targ)
                            if got.shape != want.shape or np.abs(got - want).max() > 1e-12 * scale:
                                bad('restricted-mapping', f"MappingAffine(mesh, tind={S.tolist()}).{fname}(X, {tl}) differs from the "
                                    f"full mapping restricted to these cells")
                                raise StopIteration
                    Xb = mr.invF(np.take(x, S, axis=1), S.astype(np.int32))
                    if np.abs(Xb - X[:, None, :]).max() > 1e-9:
                        bad('restricted-mapping', f"MappingAffine(mesh, tind={S.tolist()}).invF(F(X)) != X")
                        raise StopIteration
                except StopIteration:
                    break
                except Exception as e:
                    bad('restricted-mapping-exception', f"MappingAffine(mesh, tind={S.tolist()}): {e!r}")
                    break
        # facets
        if kind != 'wedge' and not (type(mp).__name__ == 'MappingIsoparametric' and mp.bndelem is None):
            facets_check(m, mp, kind, curved, bad, out)
        if nt >= 2:
            out.nt((name, lab, mlab))
        out.outcome((cls, mlab, nt))
    if len(results) == 2:
        a, b = results['default'], results['isoparametric']
        for fname, u, v in zip(('F', 'DF', 'invDF', 'detDF'), a, b):
            out.ev()
            if np.abs(u - v).max() > 1e-12 * (1 + np.abs(u).max()):
                out.violation(f"C10|{cls}|affine-vs-isoparametric|{fname}", f"{fname} differs between MappingAffine and "
                              f"MappingIsoparametric by {np.abs(u - v).max():.2e} [seed {name}, variant {lab}]", case=case0)
    if lab in ('plain', 'order2-curved'):
        out.sample({'seed': name, 'variant': lab, 'class': cls, 'cells': int(nt), 'points': int(nq)}, 2)


def facets_check(m, mp, kind, curved, bad, out):
    dim = REF[kind]['dim']
    nt = m.t.shape[1]
    Xf, Wf = facet_quadrature(kind)
    nf = m.facets.shape[1]
    t2f, f2t = m.t2f, m.f2t
    scale = 1 + np.abs(m.p).max()
    try:
        g = mp.G(Xf)
        dg = mp.detDG(Xf)
    except Exception as e:
        bad('G-exception', repr(e))
        return
    if g.shape != (dim, nf, Xf.shape[1]) or dg.shape != (nf, Xf.shape[1]):
        bad('G-shape', f"G {g.shape} detDG {dg.shape}")
        return
    # facet subsets
    for F_ in [np.array([j]) for j in range(min(nf, 6))] + [np.arange(nf)[::-1]]:
        for dt in (np.int32, np.int64):
            find = F_.astype(dt)
            try:
                if np.abs(mp.G(Xf, find=find) - g[:, F_]).max() > 1e-12 * scale or \
                        np.abs(mp.detDG(Xf, find=find) - dg[F_]).max() > 1e-12 * scale:
                    bad('facet-subset', f"G/detDG with find={find.tolist()} {dt.__name__} differ from slicing")
            except Exception as e:
                bad('facet-subset-exception', repr(e))
    if (dg <= 0).any():
        bad('detDG-sign', "surface factor not positive")
    from skfem import refdom as rd
    R = m.elem.refdom
    vol = (np.abs(mp.detDF(*_cellq(kind))) * _cellq(kind)[1] if False else None)
    Xc, Wc = _cellq(kind)
    cellvol = (np.abs(mp.detDF(Xc)) * Wc).sum(axis=1)
    xc = mp.F(Xc)
    centroid = (xc * (np.abs(mp.detDF(Xc)) * Wc)[None]).sum(axis=2) / cellvol[None]
    flux = np.zeros(nt)
    total = 0.0
    for side in (0, 1):
        find = np.nonzero(f2t[side] != -1)[0].astype(np.int32)
        if len(find) == 0:
            continue
        tind = f2t[side, find]
        x = g[:, find]                               # (dim, nfind, nq)
        try:
            Y = mp.invF(x, tind=tind)
            nrm = mp.normals(Y, tind, find, t2f)
        except Exception as e:
            bad('normals-exception', repr(e))
            return
        # G lands on the facet slot named by t2f: reference points lie on that reference facet
        slot = np.array([int(np.nonzero(t2f[:, c] == f)[0][0]) for f, c in zip(find, tind)])
        for k in range(len(find)):
            vs = R.p[:, R.facets[slot[k]]]
            # distance of Y to the affine hull of the reference facet's vertices and inside the cell
            A = np.vstack((vs, np.ones(vs.shape[1])))
            for q in range(Y.shape[2]):
                lam, *_ = np.linalg.lstsq(A, np.append(Y[:, k, q], 1.0), rcond=None)
                if np.abs(A @ lam - np.append(Y[:, k, q], 1.0)).max() > 1e-8 or \
                        not ex.in_closed_ref(kind, Y[:, k, [q]], tol=1e-8)[0]:
                    bad('G-wrong-facet', f"facet map of facet {int(find[k])} does not parametrise local facet {slot[k]} of "
                        f"cell {int(tind[k])}")
                    return
        ln = np.sqrt((nrm ** 2).sum(axis=0))
        if np.abs(ln - 1).max() > 1e-12:
            bad('normals-unit', f"normal length deviates by {np.abs(ln - 1).max():.2e}")
        # orthogonal to facet tangents (finite differences of G along the facet parameters)
        if dim >= 2:
            for d in range(dim - 1):
                acc = 0
                for k in (-3, -2, -1, 1, 2, 3):
                    Xs = Xf.copy()
                    Xs[d] += k * H
                    acc = acc + FD[k + 3] * mp.G(Xs, find=find)
                dotp = (acc * nrm).sum(axis=0)
                if np.abs(dotp).max() > 1e-9 * scale:
                    bad('normals-orthogonal', f"normal not orthogonal to facet tangent {d}: {np.abs(dotp).max():.2e}")
                    break
        # outward from the cell they are taken from
        if not curved:
            outw = ((x - centroid[:, tind][:, :, None]) * nrm).sum(axis=0)
            if (outw <= 0).any():
                k = int(np.nonzero((outw <= 0).any(axis=1))[0][0])
                bad('normals-outward', f"normal on facet {int(find[k])} taken from cell {int(tind[k])} points inward")
        contrib = ((x * nrm).sum(axis=0) * dg[find] * Wf).sum(axis=1)
        np.add.at(flux, tind, contrib)
        if side == 0:
            bnd = f2t[1, find] == -1
            total += contrib[bnd].sum()
    # the facet bases built on the mapping: normals and dx as observed by forms
    try:
        from skfem import FacetBasis, InteriorFacetBasis
        import warnings
        bases = [('boundary', lambda: FacetBasis(m, m.elem(), mapping=mp, quadrature=(Xf, Wf)))]
        if (f2t[1] != -1).any():
            bases.append(('interior-side0', lambda: InteriorFacetBasis(m, m.elem(), mapping=mp, quadrature=(Xf, Wf), side=0)))
            bases.append(('interior-side1', lambda: InteriorFacetBasis(m, m.elem(), mapping=mp, quadrature=(Xf, Wf), side=1)))
        for bl, mkb in bases:
            with warnings.catch_warnings():
                warnings.simplefilter('ignore')
                fb = mkb()
            find = np.asarray(fb.find)
            nb = np.asarray(fb.normals)
            xg = g[:, find]
            if np.abs(np.sqrt((nb ** 2).sum(axis=0)) - 1).max() > 1e-12:
                bad('basis-normals-unit', f"{bl}: FacetBasis.normals are not unit vectors")
            for d in range(dim - 1):
                acc = 0
                for k in (-3, -2, -1, 1, 2, 3):
                    Xs = Xf.copy()
                    Xs[d] += k * H
                    acc = acc + FD[k + 3] * mp.G(Xs, find=find)
                dotp = (acc * nb).sum(axis=0)
                if np.abs(dotp).max() > 1e-9 * scale:
                    bad('basis-normals-orthogonal', f"{bl}: FacetBasis.normals are not orthogonal to the facet "
                        f"(max |n.t| = {np.abs(dotp).max():.3e})")
                    break
            if not curved:
                c0 = f2t[0, find]
                outw = ((xg - centroid[:, c0][:, :, None]) * nb).sum(axis=0)
                if (outw <= 0).any():
                    bad('basis-normals-outward', f"{bl}: FacetBasis.normals do not point out of the first neighbour")
            dxw = np.abs(dg[find]) * Wf
            if np.abs(np.asarray(fb.dx) - dxw).max() > 1e-12 * (1 + np.abs(dxw).max()):
                bad('basis-dx', f"{bl}: FacetBasis.dx differs from detDG * weights")
            out.ev()
    except NotImplementedError:
        pass
    if np.abs(flux - dim * cellvol).max() > 1e-10 * (1 + np.abs(cellvol).max()) * scale:
        c = int(np.abs(flux - dim * cellvol).argmax())
        bad('divergence-theorem-cell', f"boundary integral of x.n over cell {c} is {flux[c]:.12g}, d*|K| = {dim * cellvol[c]:.12g}")
    if abs(total - dim * cellvol.sum()) > 1e-10 * (1 + cellvol.sum()) * scale:
        bad('divergence-theorem-mesh', f"boundary integral of x.n is {total:.12g}, d*volume = {dim * cellvol.sum():.12g}")
    # exact measures on straight meshes
    if not curved:
        nn = REF[kind]['nn']
        if kind == 'hex':
            from ..meshops import Geo
            gg = Geo('hex', m.p[:, :int(m.t[:nn].max()) + 1], m.t[:nn])
            exact_vol = float(sum(gg.cell_measure(c) for c in range(nt)))      # exact trilinear volume (faces may be non-planar)
        else:
            exact_vol = float(mesh_measure(kind, m.p[:, :int(m.t[:nn].max()) + 1], m.t[:nn]))
        if abs(cellvol.sum() - exact_vol) > 1e-12 * (1 + exact_vol):
            bad('volume', f"sum |detDF| w = {cellvol.sum():.15g}, exact volume {exact_vol:.15g}")
        meas = (dg * Wf).sum(axis=1)
        for j in range(nf):
            vs = [m.p[:, v] for v in m.facets[:, j]]
            if dim == 1:
                exm = 1.0
            elif dim == 2:
                exm = float(np.linalg.norm(vs[1] - vs[0]))
            else:
                exm = None
            if exm is not None and abs(meas[j] - exm) > 1e-12 * (1 + exm):
                bad('facet-measure', f"sum detDG w on facet {j} is {meas[j]:.15g}, exact measure {exm:.15g}")
                break
        if dim == 3:
            from ..meshops import facet_vertex_lists
            fv = facet_vertex_lists(kind, m)
            for j in range(nf):
                P = [m.p[:, v] for v in fv[j]]
                if len(P) == 4 and abs(np.linalg.det(np.array([P[1] - P[0], P[2] - P[0], P[3] - P[0]]))) > 1e-14:
                    continue          # non-planar bilinear face: no closed-form measure here
                exm = 0.0
                for a in range(1, len(P) - 1):
                    exm += .5 * np.linalg.norm(np.cross(P[a] - P[0], P[a + 1] - P[0]))
                if abs(meas[j] - exm) > 1e-12 * (1 + exm):
                    bad('facet-measure', f"sum detDG w on facet {j} is {meas[j]:.15g}, exact measure {exm:.15g}")
                    break


_CQ = {}


def _cellq(kind):
    if kind not in _CQ:
        from skfem.quadrature import get_quadrature
        from skfem import refdom as rd
        R = {'line': rd.RefLine, 'tri': rd.RefTri, 'quad': rd.RefQuad, 'tet': rd.RefTet, 'hex': rd.RefHex,
             'wedge': rd.RefWedge}[kind]
        _CQ[kind] = get_quadrature(R, 6)
    return _CQ[kind]


# ---------------------------------------------------------------------------------------
# (b) sequences of queries on one mapping object
# ---------------------------------------------------------------------------------------

def alphabet(m, kind):
    """Queries built so that cache keys collide if the key ignores shape or dtype."""
    dim = REF[kind]['dim']
    nt = m.t.shape[1]
    n2 = 2 * nt
    g = [(k + .5) / 8 for k in range(8)]
    pts = [q for q in itertools.product(g, repeat=dim)
           if not (kind in ('tri', 'tet') and sum(q) > 1) and not (kind == 'wedge' and q[0] + q[1] > 1)]
    step = max(1, len(pts) // n2)
    base = np.ascontiguousarray(np.array(pts[::step][:n2]).T)
    assert base.shape == (dim, n2), base.shape
    Xs = base                                           # shared layout (dim, 2 nt)
    Xc = np.ascontiguousarray(base.reshape(dim, nt, -1))   # per-cell layout with the SAME bytes
    Xs2 = np.ascontiguousarray(base[:, ::-1])           # other points, same size
    tall32 = np.arange(nt, dtype=np.int32)
    qs = []
    for fn in ('F', 'DF', 'invDF', 'detDF'):
        qs.append((f'{fn}(shared)', lambda mp, fn=fn: getattr(mp, fn)(Xs)))
        qs.append((f'{fn}(shared,tind=all32)', lambda mp, fn=fn: getattr(mp, fn)(Xs, tall32)))
        qs.append((f'{fn}(percell,tind=all32)', lambda mp, fn=fn: getattr(mp, fn)(Xc, tall32)))
        qs.append((f'{fn}(shared2)', lambda mp, fn=fn: getattr(mp, fn)(Xs2)))
    if nt >= 2:
        t64 = np.array([1], dtype=np.int64)
        t32 = np.array([1, 0], dtype=np.int32)
        for fn in ('DF', 'detDF', 'F'):
            qs.append((f'{fn}(shared,tind=[1]i64)', lambda mp, fn=fn: getattr(mp, fn)(Xs, t64)))
            qs.append((f'{fn}(shared,tind=[1,0]i32)', lambda mp, fn=fn: getattr(mp, fn)(Xs, t32)))
    if kind != 'wedge' and m.bndelem is not None:
        Xf, _ = facet_quadrature(kind)
        nf = m.facets.shape[1]
        f1 = np.array([nf - 1], dtype=np.int64)
        f2 = np.array([nf - 1, 0], dtype=np.int32)
        qs.append(('G()', lambda mp: mp.G(Xf)))
        qs.append(('G(find=[last]i64)', lambda mp: mp.G(Xf, find=f1)))
        qs.append(('detDG(find=[last,0]i32)', lambda mp: mp.detDG(Xf, find=f2)))
        bf = m.boundary_facets()

        def nq(mp):
            x = mp.G(Xf, find=bf)
            tind = m.f2t[0, bf]
            return mp.normals(mp.invF(x, tind=tind), tind, bf, m.t2f)
        qs.append(('normals(boundary)', nq))
    return qs


def run_query(q, mp):
    try:
        r = q(mp)
        return ('ok', np.array(r, copy=True))
    except Exception as e:
        return ('exc', type(e).__name__)


def same(a, b):
    if a[0] != b[0]:
        return False
    if a[0] == 'exc':
        return True
    return a[1].shape == b[1].shape and (a[1].size == 0 or np.abs(a[1] - b[1]).max() <= 1e-13 * (1 + np.abs(b[1]).max()))


def sequences(m, name, lab, tier, out):
    cls = type(m).__name__
    kind = KIND_OF_CLASS[cls]
    L = BOUNDS[tier]['sequence_length']
    for mlab, mk in mappings_for(m):
        qs = alphabet(m, kind)
        fresh = {}
        for ql, q in qs:
            fresh[ql] = run_query(q, mk())
        seen_states = set()
        mname = type(mk()).__name__
        for seq in itertools.product(range(len(qs)), repeat=L):
            if L == 3 and len(set(seq)) < 2:
                continue
            mp = mk()
            hist = []
            for step, qi in enumerate(seq):
                ql, q = qs[qi]
                before = len(getattr(mp, '_cache', {}))
                r = run_query(q, mp)
                after = len(getattr(mp, '_cache', {}))
                hist.append(ql)
                out.transitions += 1
                if not same(r, fresh[ql]):
                    what = 'exception-only-after-history' if r[0] != fresh[ql][0] else 'history-dependent-result'
                    det = (f"{r[1]}" if r[0] == 'exc' else
                           f"shape {r[1].shape} vs {fresh[ql][1].shape}" if fresh[ql][0] == 'ok' and r[1].shape != fresh[ql][1].shape
                           else "values differ" if fresh[ql][0] == 'ok' else f"fresh raises {fresh[ql][1]}")
                    out.violation(f"C10|{cls}|{mname}|sequence|{what}",
                                  f"query {ql} after {hist[:-1]} differs from the same query on a fresh mapping ({det}) "
                                  f"[seed {name}, variant {lab}]",
                                  case={'seed': name, 'variant': lab, 'mapping': mlab, 'sequence': hist})
                    break
                if step > 0 and after == before and before > 0 and ql != hist[step - 1]:
                    out.nt((name, lab, mlab, tuple(hist)))
            out.ev()
            seen_states.add(tuple(hist))
        out.states += len(seen_states)
        out.outcome((cls, mlab, len(qs)))
        out.sample({'seed': name, 'variant': lab, 'mapping': mname, 'alphabet': [q[0] for q in qs][:8], 'sequence_length': L}, 1)
    out.traces = out.transitions
