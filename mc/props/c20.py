"""C20 - autodiff gives the true Jacobian; integrand helpers equal their definitions."""
from __future__ import annotations

import itertools
import warnings
from fractions import Fraction as Fr

import numpy as np

from ..report import Out
from .. import meshspace as ms

ID = 'C20'
# sub-checks added after the seeded-change waves (DESIGN.md sections 5 and 6)
EXTENSIONS = [
    'one NonlinearForm object on two geometries; w.h / w.n integrands; complex-valued nonlinear form; elemental vs assemble; finite-element trailing layouts for cell counts 1, 2, 3, 4, 9; complex tensors through the NumPy helpers',
]
LEVEL = 'exploration'
TECHNIQUE = "exhaustive enumeration of integer tensor grids for the helper algebra; grammar x meshes x linearisation points for the autodiff form, vs hand-linearised forms and central differences"
LEVEL_TEXT = ("Helpers (NumPy and JAX variants): every helper is evaluated on EVERY integer tensor with entries in {-1,0,1,2} (2x2: "
              "256 matrices, all 16x16 vector pairs) and {-1,0,1} (3x3: all 19 683 matrices, all 27x27 vector pairs, third-order "
              "tensors from all vector triples), stacked along trailing axes of shape (), (n,) and (n, m), against integer / "
              "Fraction reference formulas written out by hand (Leibniz determinant, adjugate inverse, index sums); the helpers are "
              "multilinear or low-degree polynomial, so a grid of this size decides them; NumPy and JAX variants must agree. "
              "NonlinearForm: a grammar of smooth integrands (polynomial, rational, exp / sin; scalar, vector-valued, composite; "
              "linear) x small irregular meshes (line, triangle, tetrahedron; mirrored) x linearisation points {0, EVERY unit "
              "vector, two integer-pattern vectors}: the returned vector equals minus the LinearForm of the integrand at the "
              "interpolated point, the matrix equals the hand-linearised BilinearForm (1e-10) and central differences of the "
              "residual (1e-6); linear integrands reduce to ordinary assembly.")
LEVEL_NOTE = "JAX (CPU, x64) is exercised, not verified; hand linearisations are written next to each integrand and cross-checked against the finite differences."
RULE = ("helpers: case = (helper, size, trailing shape) over the full grid. forms: case = (integrand, mesh, element, point). "
        "non-trivial = distinct helper case with non-constant output, distinct form case with a non-zero Jacobian that differs from "
        "the Jacobian at 0 (genuinely nonlinear) or a linear integrand.")
ASSUMPTIONS = ["singular matrices are excluded for inv only", "finite-difference step 1e-5, tolerance 2e-6 * scale"]
BOUNDS = {'quick': {'helper_grids': 'complete', 'form_points': 'all unit vectors, N <= 12'},
          'thorough': {'helper_grids': 'complete', 'form_points': 'all unit vectors, N <= 30'}}
ITEM_TIMEOUT = {'quick': 900, 'thorough': 3600}
MP_CONTEXT = 'spawn'
MAX_JOBS = 12


def items(tier, seed):
    its = [('helpers', 2, 'numpy'), ('helpers', 3, 'numpy'), ('helpers', 2, 'jax'), ('helpers', 3, 'jax'), ('fields', 0, 'both')]
    for f in FORMS:
        for mesh in FORMS[f]['meshes']:
            its.append(('form', f, mesh))
    return its


def cost(item):
    return 10 if item[0] == 'form' else 3


# ---------------------------------------------------------------------------------------
# reference formulas (hand written, integer arithmetic)
# ---------------------------------------------------------------------------------------

def ref_det(A):
    n = A.shape[0]
    if n == 2:
        return A[0, 0] * A[1, 1] - A[0, 1] * A[1, 0]
    tot = 0
    for perm in itertools.permutations(range(3)):
        inv = sum(1 for i in range(3) for j in range(i + 1, 3) if perm[i] > perm[j])
        tot = tot + (-1) ** inv * A[0, perm[0]] * A[1, perm[1]] * A[2, perm[2]]
    return tot


def ref_adj(A):
    n = A.shape[0]
    if n == 2:
        return np.array([[A[1, 1], -A[0, 1]], [-A[1, 0], A[0, 0]]])
    C = np.zeros_like(A)
    for i in range(3):
        for j in range(3):
            r = [k for k in range(3) if k != i]
            c = [k for k in range(3) if k != j]
            minor = A[r[0], c[0]] * A[r[1], c[1]] - A[r[0], c[1]] * A[r[1], c[0]]
            C[j, i] = (-1) ** (i + j) * minor
    return C


def grids(n):
    vals = [-1, 0, 1, 2] if n == 2 else [-1, 0, 1]
    mats = np.array(list(itertools.product(vals, repeat=n * n)), dtype=np.int64).T.reshape(n, n, -1)
    vecs = np.array(list(itertools.product(vals, repeat=n)), dtype=np.int64).T          # (n, nv)
    return mats, vecs


def trailing_variants(arrs, ntot):
    """The same stacked data with trailing shape (n,), (a, b) and single entries ()."""
    yield '(n,)', [a for a in arrs], lambda r: r
    a_ = 1
    for d in range(2, 200):
        if ntot % d == 0:
            a_ = d
            break
    if a_ > 1:
        yield '(n,m)', [a.reshape(a.shape[:-1] + (a_, ntot // a_)) for a in arrs], lambda r: r.reshape(r.shape[:-2] + (ntot,))


def helpers_work(n, variant, out):
    if variant == 'jax':
        import jax
        jax.config.update("jax_enable_x64", True)
        import skfem.autodiff.helpers as H
        import jax.numpy as jnp
        conv = lambda a: jnp.asarray(a, dtype=jnp.float64)    # noqa: E731
    else:
        import skfem.helpers as H
        conv = lambda a: np.asarray(a, dtype=np.float64)      # noqa: E731
    mats, vecs = grids(n)
    nm, nv = mats.shape[-1], vecs.shape[-1]
    sig0 = f"C20|helpers-{variant}|"

    def chk(name, got, want, shape_label, detail=''):
        out.ev()
        got = np.asarray(got)
        want = np.asarray(want, dtype=float)
        if got.shape != want.shape:
            out.violation(sig0 + f"{name}|{n}x{n}|shape", f"{name} on {n}x{n} tensors with trailing shape {shape_label} returns shape "
                          f"{got.shape}, expected {want.shape}", case={'helper': name, 'n': n, 'trailing': shape_label})
            return
        err = np.abs(got - want)
        if not np.isfinite(got).all() or err.max() > 1e-12 * (1 + np.abs(want).max()):
            k = int(np.argmax(err.reshape(-1))) if np.isfinite(err).all() else 0
            idx = np.unravel_index(k, err.shape)
            out.violation(sig0 + f"{name}|{n}x{n}|value", f"{name} differs from its definition on {n}x{n} input no. {idx[-1] if idx else 0} "
                          f"(trailing {shape_label}): got {got[idx]!r}, expected {want[idx]!r} {detail}",
                          case={'helper': name, 'n': n, 'trailing': shape_label, 'index': [int(i) for i in idx]})
            return
        if np.ptp(want) > 0:
            out.nt((variant, name, n, shape_label))
        out.outcome((variant, name, n, shape_label))
    # matrices
    for lab, (A,), back in trailing_variants([mats], nm):
        Af = conv(A)
        if hasattr(H, 'det'):
            chk('det', back(np.asarray(H.det(Af))), ref_det(mats), lab)
        chk('trace', back(np.asarray(H.trace(Af))), sum(mats[i, i] for i in range(n)), lab)
        chk('transpose', back(np.asarray(H.transpose(Af))), np.transpose(mats, (1, 0, 2)), lab)
        chk('ddot(A,A^T)', back(np.asarray(H.ddot(Af, H.transpose(Af)))), np.einsum('ijk,jik->k', mats, mats), lab)
        if hasattr(H, 'inv'):
            d = ref_det(mats)
            ok = d != 0
            sub = mats[:, :, ok]
            invs = ref_adj(sub).astype(float) / d[ok]
            got = np.asarray(H.inv(conv(sub))) if lab == '(n,)' else None
            if got is not None:
                chk('inv', got, invs, lab)
    # complex-valued tensors: the helpers are algebraic identities over the complex numbers as well
    if variant == 'numpy':
        zc = 1.0 + 0.5j
        d_ = ref_det(mats)
        ok_ = d_ != 0
        sub_ = mats[:, :, ok_]
        Ac = sub_.astype(complex) * zc

        def chk_c(name, got, want):
            out.ev()
            got, want = np.asarray(got), np.asarray(want)
            if got.shape != want.shape or not np.iscomplexobj(got) or np.abs(got - want).max() > 1e-12 * (1 + np.abs(want).max()):
                out.violation(sig0 + f"{name}|{n}x{n}|complex", f"{name} on complex {n}x{n} tensors differs from its definition "
                              f"(result dtype {got.dtype}; imaginary part lost?)", case={'helper': name, 'n': n, 'dtype': 'complex'})
        try:
            if hasattr(H, 'inv'):
                chk_c('inv', H.inv(Ac), ref_adj(sub_).astype(float) / d_[ok_] / zc)
            if hasattr(H, 'det'):
                chk_c('det', H.det(Ac), d_[ok_] * zc ** n)
            chk_c('trace', H.trace(Ac), sum(sub_[i, i] for i in range(n)) * zc)
            chk_c('transpose', H.transpose(Ac), np.transpose(sub_, (1, 0, 2)) * zc)
            chk_c('ddot', H.ddot(Ac, Ac), np.einsum('ijk,ijk->k', sub_, sub_) * zc * zc)
        except Exception as e:
            out.violation(sig0 + f"complex|{n}x{n}|exception", f"a helper raised {e!r} on complex tensors", case={'n': n})
    # matrix-vector, matrix-matrix on a product grid (all matrices x a spread of vectors)
    vi = np.arange(nm) % nv
    V = vecs[:, vi]
    chk('mul(A,x)', np.asarray(H.mul(conv(mats), conv(V))), np.einsum('ijk,jk->ik', mats, V), '(n,)')
    B = mats[:, :, (np.arange(nm) * 7 + 3) % nm]
    if variant == 'jax':
        chk('mul(A,B)', np.asarray(H.mul(conv(mats), conv(B))), np.einsum('ijk,jlk->ilk', mats, B), '(n,)')
    chk('ddot(A,B)', np.asarray(H.ddot(conv(mats), conv(B))), np.einsum('ijk,ijk->k', mats, B), '(n,)')
    # the finite element layout (cells, quadrature points) for EVERY small cell count: shapes in which the number of cells
    # coincides with the tensor size must not change which product is taken
    for nel in (1, 2, 3, 4, 9):
        q = nm // nel
        K = nel * q
        lab = f'({nel},{q})'
        A4 = mats[:, :, :K].reshape(n, n, nel, q)
        V3 = V[:, :K].reshape(n, nel, q)
        B4 = B[:, :, :K].reshape(n, n, nel, q)
        def shaped(name, fn, shape):
            # a helper that returns another rank / size in this layout is a violation, not a harness crash
            try:
                r = np.asarray(fn())
                if r.size != int(np.prod(shape)):
                    out.violation(sig0 + f"{name}|{n}x{n}|shape", f"{name} on {n}x{n} tensors with trailing shape {lab} returns shape "
                                  f"{r.shape}", case={'helper': name, 'n': n, 'trailing': lab})
                    return None
                return r.reshape(shape)
            except Exception as e:
                out.violation(sig0 + f"{name}|{n}x{n}|exception", f"{name} on {n}x{n} tensors with trailing shape {lab} raised {e!r}",
                              case={'helper': name, 'n': n, 'trailing': lab})
                return None
        g_ = shaped('mul(A,x)', lambda: H.mul(conv(A4), conv(V3)), (n, K))
        if g_ is not None:
            chk('mul(A,x)', g_, np.einsum('ijk,jk->ik', mats[:, :, :K], V[:, :K]), lab)
        if variant == 'jax':
            g_ = shaped('mul(A,B)', lambda: H.mul(conv(A4), conv(B4)), (n, n, K))
            if g_ is not None:
                chk('mul(A,B)', g_, np.einsum('ijk,jlk->ilk', mats[:, :, :K], B[:, :, :K]), lab)
        g_ = shaped('ddot(A,B)', lambda: H.ddot(conv(A4), conv(B4)), (K,))
        if g_ is not None:
            chk('ddot(A,B)', g_, np.einsum('ijk,ijk->k', mats[:, :, :K], B[:, :, :K]), lab)
        V3r = V3[:, ::-1] if nel > 1 else V3
        g_ = shaped('dot(x,y)', lambda: H.dot(conv(V3), conv(np.ascontiguousarray(V3r))), (K,))
        if g_ is not None:
            chk('dot(x,y)', g_, (V3 * V3r).sum(axis=0).reshape(K), lab)
    # vectors: all ordered pairs
    U = np.repeat(vecs, nv, axis=1)
    W = np.tile(vecs, (1, nv))
    for lab, (u, w), back in trailing_variants([U, W], nv * nv):
        chk('dot', back(np.asarray(H.dot(conv(u), conv(w)))), (U * W).sum(axis=0), lab)
        chk('prod(u,v)', back(np.asarray(H.prod(conv(u), conv(w)))), np.einsum('ik,jk->ijk', U, W), lab)
        if hasattr(H, 'cross'):
            if n == 2:
                chk('cross', back(np.asarray(H.cross(conv(u), conv(w)))), U[0] * W[1] - U[1] * W[0], lab)
            else:
                chk('cross', back(np.asarray(H.cross(conv(u), conv(w)))),
                    np.array([U[1] * W[2] - U[2] * W[1], U[2] * W[0] - U[0] * W[2], U[0] * W[1] - U[1] * W[0]]), lab)
    # third order: all vector triples (n=2: 4096, n=3: 19683)
    T1 = np.repeat(vecs, nv * nv, axis=1)
    T2 = np.tile(np.repeat(vecs, nv, axis=1), (1, nv))
    T3 = np.tile(vecs, (1, nv * nv))
    P3 = np.einsum('ik,jk,lk->ijlk', T1, T2, T3)
    chk('prod(u,v,w)', np.asarray(H.prod(conv(T1), conv(T2), conv(T3))), P3, '(n,)')
    Q3 = np.einsum('ik,jk,lk->ijlk', T3, T1, T2)
    chk('dddot', np.asarray(H.dddot(conv(P3), conv(Q3))), np.einsum('ijlk,ijlk->k', P3, Q3), '(n,)')
    # eye / identity
    wv = conv(np.arange(5.) + 1)
    E = np.asarray(H.eye(wv, n))
    chk('eye', E, np.einsum('ij,k->ijk', np.eye(n), np.arange(5.) + 1), '(n,)')
    # single tensors (trailing shape ())
    for k in (0, nm // 3, nm - 1):
        A1 = conv(mats[:, :, k])
        if hasattr(H, 'det'):
            chk('det', np.asarray(H.det(A1)), ref_det(mats[:, :, k]), '()')
        chk('trace', np.asarray(H.trace(A1)), np.trace(mats[:, :, k]), '()')
        chk('mul(A,x)', np.asarray(H.mul(A1, conv(vecs[:, k % nv]))), mats[:, :, k] @ vecs[:, k % nv], '()')
    out.sample({'helpers': variant, 'size': n, 'matrices': int(nm), 'vector_pairs': int(nv * nv), 'vector_triples': int(nv ** 3)}, 1)


def fields_work(out):
    """Helpers that act on fields (grad / sym_grad / div / curl / d / dd): NumPy vs JAX vs definitions."""
    import jax
    jax.config.update("jax_enable_x64", True)
    import jax.numpy as jnp
    import skfem.helpers as HN
    import skfem.autodiff.helpers as HJ
    from skfem.autodiff import JaxDiscreteField
    from skfem.element import DiscreteField
    sig0 = "C20|helpers-fields|"
    for n in (2, 3):
        mats, vecs = grids(n)
        K = mats.shape[-1]
        k1 = 16 if n == 2 else 27
        G = mats.astype(float).reshape(n, n, k1, K // k1)          # vector field gradient, two trailing axes like (cells, points)
        val = vecs[:, np.arange(K) % vecs.shape[-1]].astype(float).reshape(n, k1, K // k1)
        u = DiscreteField(val, grad=G)
        uj = JaxDiscreteField(jnp.asarray(val), grad=jnp.asarray(G))

        def chk(name, got, want):
            out.ev()
            got, want = np.asarray(got), np.asarray(want)
            if got.shape != want.shape or np.abs(got - want).max() > 1e-12 * (1 + np.abs(want).max()):
                out.violation(sig0 + f"{name}|{n}", f"{name} of a {n}-vector field differs from its definition",
                              case={'helper': name, 'n': n})
            else:
                out.nt(('fields', name, n))
        sg = .5 * (G + np.transpose(G, (1, 0, 2, 3)))
        chk('sym_grad-numpy', HN.sym_grad(u), sg)
        chk('sym_grad-jax', HJ.sym_grad(uj), sg)
        tr = sum(G[i, i] for i in range(n))
        chk('div-numpy', HN.div(u), tr)
        chk('div-jax', HJ.div(uj), tr)
        chk('grad-numpy', HN.grad(u), G)
        chk('grad-jax', HJ.grad(uj), G)
        if n == 2:
            chk('curl-numpy(vector)', HN.curl(u), G[1, 0] - G[0, 1])
            s = DiscreteField(val[0], grad=G[0])
            chk('curl-numpy(scalar)', HN.curl(s), np.array([G[0, 1], -G[0, 0]]))
        else:
            chk('curl-numpy(vector)', HN.curl(u), np.array([G[2, 1] - G[1, 2], G[0, 2] - G[2, 0], G[1, 0] - G[0, 1]]))
        chk('d-numpy', HN.d(u), G)
        chk('identity', HN.identity(DiscreteField(G)), np.einsum('ij,kl->ijkl', np.eye(n), np.ones(G.shape[-2:])))
        # inner
        chk('inner(vec)', HN.inner(u, u), (val * val).sum(axis=0))
        chk('inner(mat)', HN.inner(DiscreteField(G), DiscreteField(G)), (G * G).sum(axis=(0, 1)))


# ---------------------------------------------------------------------------------------
# nonlinear forms: integrand, hand linearisation, element, meshes
# ---------------------------------------------------------------------------------------

def _forms():
    F = {}

    def reg(name, kind, elem, meshes, residual, jac, linear=False, cplx=False):
        F[name] = dict(kind=kind, elem=elem, meshes=meshes, residual=residual, jac=jac, linear=linear, cplx=cplx)
    S = ['L3', 'T2', 'T2:mirrored', 'K1']
    # scalar elements ------------------------------------------------------------------------------------------
    reg('cubic', 'scalar', {'L3': 'ElementLineP2', 'T2': 'ElementTriP2', 'K1': 'ElementTetP1'}, S,
        lambda np_, H, u, v, w: H.dot(u.grad, v.grad) + u * u * u * v,
        lambda np_, H, u0, du, v, w: H.dot(du.grad, v.grad) + 3 * u0 * u0 * du * v)
    reg('quasilinear', 'scalar', {'L3': 'ElementLineP1', 'T2': 'ElementTriP1', 'K1': 'ElementTetP1'}, S,
        lambda np_, H, u, v, w: (1 + u * u) * H.dot(u.grad, v.grad) - w.x[0] * v,
        lambda np_, H, u0, du, v, w: 2 * u0 * du * H.dot(u0.grad, v.grad) + (1 + u0 * u0) * H.dot(du.grad, v.grad))
    reg('exp-sin', 'scalar', {'L3': 'ElementLineP2', 'T2': 'ElementTriP1', 'K1': 'ElementTetP1'}, S,
        lambda np_, H, u, v, w: np_.exp(u.value if hasattr(u, 'value') else u) * v + np_.sin(u.value if hasattr(u, 'value') else u) * v.grad[0],
        lambda np_, H, u0, du, v, w: np_.exp(np_.asarray(u0)) * du * v + np_.cos(np_.asarray(u0)) * du * v.grad[0])
    reg('rational', 'scalar', {'L3': 'ElementLineP1', 'T2': 'ElementTriP2', 'K1': 'ElementTetP1'}, S[:3],
        lambda np_, H, u, v, w: H.dot(u.grad, v.grad) / (1 + u * u),
        lambda np_, H, u0, du, v, w: H.dot(du.grad, v.grad) / (1 + u0 * u0)
        - 2 * u0 * du * H.dot(u0.grad, v.grad) / (1 + u0 * u0) ** 2)
    reg('linear', 'scalar', {'L3': 'ElementLineP2', 'T2': 'ElementTriP2', 'K1': 'ElementTetP1'}, S,
        lambda np_, H, u, v, w: H.dot(u.grad, v.grad) + 2 * u * v * (1 + w.x[0]) - 1.0 * v,
        lambda np_, H, u0, du, v, w: H.dot(du.grad, v.grad) + 2 * du * v * (1 + w.x[0]), linear=True)
    # complex-valued form (dtype=complex): complex coefficients in the operator and in the load
    reg('complex', 'scalar', {'L3': 'ElementLineP2', 'T2': 'ElementTriP1', 'K1': 'ElementTetP1'}, ['L3', 'T2', 'K1'],
        lambda np_, H, u, v, w: (1 + 2j) * H.dot(u.grad, v.grad) + (2 - 1j) * u * u * v * (1 + w.x[0]) - (1 + 3j) * v,
        lambda np_, H, u0, du, v, w: (1 + 2j) * H.dot(du.grad, v.grad) + (2 - 1j) * 2 * u0 * du * v * (1 + w.x[0]), cplx=True)
    # default parameters of the basis (w.x, w.h; w.n on facet bases) inside a nonlinear integrand
    reg('defaults', 'scalar', {'L3': 'ElementLineP2', 'T2': 'ElementTriP2', 'K1': 'ElementTetP1'}, S,
        lambda np_, H, u, v, w: u * v * w.h + w.x[0] * u * u * v + H.dot(u.grad, v.grad) * (1 + w.x[0] * w.x[0]),
        lambda np_, H, u0, du, v, w: du * v * w.h + 2 * w.x[0] * u0 * du * v + H.dot(du.grad, v.grad) * (1 + w.x[0] * w.x[0]))
    reg('facet-normal', 'scalar-facet', {'T2': 'ElementTriP2', 'K1': 'ElementTetP1', 'L3': 'ElementLineP1'}, ['T2', 'T2:mirrored', 'K1', 'L3'],
        lambda np_, H, u, v, w: u * u * v * w.n[0] + w.h * u * v + w.x[0] * v,
        lambda np_, H, u0, du, v, w: 2 * u0 * du * v * w.n[0] + w.h * du * v)
    # vector-valued --------------------------------------------------------------------------------------------
    reg('vector', 'vector', {'T2': 'ElementVector(TriP1)', 'K1': 'ElementVector(TetP2)'}, ['T2', 'T2:mirrored', 'K1'],
        lambda np_, H, u, v, w: H.ddot(H.mul(u.grad, u.grad) if hasattr(H, '_mm') else _mm(np_, u.grad, u.grad), v.grad)
        + H.dot(u, v) * H.dot(u, u),
        lambda np_, H, u0, du, v, w: H.ddot(_mm(np_, du.grad, u0.grad) + _mm(np_, u0.grad, du.grad), v.grad)
        + H.dot(du, v) * H.dot(u0, u0) + 2 * H.dot(u0, v) * H.dot(u0, du))
    # composite -------------------------------------------------------------------------------------------------
    reg('composite', 'composite', {'T2': 'Composite(TriP2*TriP1)', 'L3': 'Composite(LineP2*LineP0)'}, ['T2', 'L3'],
        lambda np_, H, u, p, v, q, w: H.dot(u.grad, v.grad) + p * u * v + q * (u * u - p),
        lambda np_, H, u0, p0, du, dp, v, q, w: H.dot(du.grad, v.grad) + dp * u0 * v + p0 * du * v + q * (2 * u0 * du - dp))
    return F


def _mm(np_, A, B):
    return np_.einsum('ij...,jk...->ik...', A, B)


FORMS = {k: {'meshes': v['meshes']} for k, v in _forms().items()}


def get_mesh(label, seed):
    name, _, var = label.partition(':')
    m = ms.seeds(seed)[name].build()
    if var == 'mirrored':
        m = m.mirrored(tuple([1.] + [0.] * (m.p.shape[0] - 1)))
    return m


def form_work(fname, meshlabel, tier, seed, out):
    import jax
    jax.config.update("jax_enable_x64", True)
    import jax.numpy as jnp
    from skfem import Basis, BilinearForm, LinearForm
    from skfem.autodiff import NonlinearForm
    import skfem.autodiff.helpers as HJ
    import skfem.helpers as HN
    from .. import catalogue as cat
    spec = _forms()[fname]
    m = get_mesh(meshlabel, seed)
    ename = spec['elem'][meshlabel.partition(':')[0]]
    facet = spec['kind'] == 'scalar-facet'
    from skfem import FacetBasis
    mk = (lambda mm: FacetBasis(mm, cat.by_name(ename).make())) if facet else (lambda mm: Basis(mm, cat.by_name(ename).make()))
    b0 = mk(m)
    N = b0.N
    # the same form object is afterwards used on a basis of the same class and sizes but other geometry, then on the first again
    dimm = m.p.shape[0]
    b2 = mk(m.scaled(tuple([2.0, 0.5, 1.5][:dimm])).translated(tuple([1.0, -2.0, 0.5][:dimm])))
    sig0 = f"C20|NonlinearForm|{fname}|"
    case0 = {'integrand': fname, 'mesh': meshlabel, 'element': ename}

    def bad(what, msg, **kw):
        out.violation(sig0 + what, f"{msg} [integrand {fname}, element {ename}, mesh {meshlabel}]", case=dict(case0, **kw))
    res, jac = spec['residual'], spec['jac']
    comp = spec['kind'] == 'composite'
    fkw = {'dtype': np.complex128} if spec['cplx'] else {}
    if comp:
        nl = NonlinearForm(lambda u, p, v, q, w: res(jnp, HJ, u, p, v, q, w), **fkw)
    else:
        nl = NonlinearForm(lambda u, v, w: res(jnp, HJ, u, v, w), **fkw)
    nmax = 12 if tier == 'quick' else 30
    pts = [('zero', np.zeros(N))]
    for k in range(min(N, nmax)):
        e = np.zeros(N)
        e[k] = 1.0
        pts.append((f'e_{k}', e))
    pts.append(('pattern1', (np.arange(N) % 3 - 1.0) * .5))
    pts.append(('pattern2', 1.0 + (np.arange(N) * 7 % 5) * .25))
    def run_on(blab, b, pts):
        J0 = None

        def residual_vec(x):
            ui = b.interpolate(x)
            if comp:
                return LinearForm(lambda v, q, w: res(np, HN, w['a'], w['c'], v, q, w), **fkw).assemble(b, a=ui[0], c=ui[1])
            return LinearForm(lambda v, w: res(np, HN, w['a'], v, w), **fkw).assemble(b, a=ui)
        for lab, x in pts:
            out.ev()
            try:
                J, r = nl.assemble(b, x=x)
            except Exception as e:
                bad('exception', f"assemble raised {e!r} at {lab} ({blab})", point=lab, basis=blab)
                return False
            Jd = J.toarray()
            ui = b.interpolate(x)
            # the elemental call path returns the same pair as elemental data
            if lab in ('zero', 'pattern1'):
                try:
                    Jc, rc = nl.elemental(b, x=x)
                    Je, re_ = Jc.todefault(), np.asarray(rc.todefault())
                    if Je.shape != J.shape or np.abs((Je - J).toarray()).max() > 1e-12 * (1 + np.abs(Jd).max()) \
                            or re_.shape != r.shape or np.abs(re_ - r).max() > 1e-12 * (1 + np.abs(r).max()):
                        tr = ' (the vector has the opposite sign)' if re_.shape == r.shape and np.abs(re_ + r).max() <= 1e-12 * (
                            1 + np.abs(r).max()) and np.abs(r).max() > 0 else ''
                        bad('elemental-vs-assemble', f"NonlinearForm.elemental(basis, x) at {lab} does not describe the pair returned by "
                            f"assemble(basis, x){tr}", point=lab, basis=blab)
                        return False
                except Exception as e:
                    bad('elemental-exception', repr(e), point=lab)
                    return False
            # residual
            want_r = -residual_vec(x)
            if r.shape != want_r.shape or np.abs(r - want_r).max() > 1e-10 * (1 + np.abs(want_r).max()):
                bad('residual', f"returned vector differs from minus the LinearForm of the integrand at {lab} (max diff "
                    f"{np.abs(r - want_r).max():.3e}) [{blab}]", point=lab, basis=blab)
                return False
            # hand-linearised Jacobian
            if comp:
                Jh = BilinearForm(lambda du, dp, v, q, w: jac(np, HN, w['a'], w['c'], du, dp, v, q, w), **fkw).assemble(b, a=ui[0], c=ui[1])
            else:
                Jh = BilinearForm(lambda du, v, w: jac(np, HN, w['a'], du, v, w), **fkw).assemble(b, a=ui)
            Jh = Jh.toarray()
            sc = 1 + np.abs(Jh).max()
            if Jd.shape != Jh.shape or np.abs(Jd - Jh).max() > 1e-10 * sc:
                i, j = np.unravel_index(np.abs(Jd - Jh).argmax(), Jh.shape) if Jd.shape == Jh.shape else (0, 0)
                tr = ' (equals its transpose)' if Jd.shape == Jh.shape and np.abs(Jd - Jh.T).max() <= 1e-10 * sc else ''
                bad('jacobian-vs-hand-linearisation', f"Jacobian at {lab} differs from the hand-linearised bilinear form: J[{i},{j}] = "
                    f"{Jd[i, j]!r} vs {Jh[i, j]!r}{tr} [{blab}]", point=lab, basis=blab)
                return False
            # central differences of the residual (independent of the hand linearisation)
            eps = 1e-5
            cols = range(N) if N <= 12 else sorted({0, N // 2, N - 1})
            for k in cols:
                e = np.zeros(N)
                e[k] = eps
                fd = (residual_vec(x + e) - residual_vec(x - e)) / (2 * eps)
                if np.abs(fd - Jd[:, k]).max() > 2e-6 * sc:
                    bad('jacobian-vs-finite-differences', f"column {k} of the Jacobian at {lab} differs from central differences of the "
                        f"residual by {np.abs(fd - Jd[:, k]).max():.3e}", point=lab)
                    return False
            if J0 is None:
                J0 = Jd
            if spec['linear']:
                if np.abs(Jd - J0).max() > 1e-12 * sc:
                    bad('linear-jacobian-depends-on-point', f"Jacobian of a linear integrand changes with the point ({lab})")
                out.nt((fname, meshlabel, lab, blab))
            elif np.abs(Jd).max() > 0 and (lab == 'zero' or np.abs(Jd - J0).max() > 1e-9):
                out.nt((fname, meshlabel, lab, blab))
            out.outcome((fname, meshlabel, lab, blab))
        return True

    for blab, bb, pp in (('first', b0, pts), ('same-form-other-geometry', b2, pts[:1] + pts[-2:]),
                         ('same-form-first-again', b0, pts[-1:])):
        if not run_on(blab, bb, pp):
            return
    b = b0
    if spec['linear']:
        # reduces to ordinary assembly: J == A, r == b - A x
        A = BilinearForm(lambda du, v, w: jac(np, HN, None, du, v, w)).assemble(b).toarray()
        x = pts[-1][1]
        J, r = nl.assemble(b, x=x)
        lf = LinearForm(lambda v, w: 1.0 * v).assemble(b)
        if np.abs(J.toarray() - A).max() > 1e-11 * (1 + np.abs(A).max()) or np.abs(r - (lf - A @ x)).max() > 1e-10 * (1 + np.abs(lf).max()):
            bad('linear-reduction', "a linear integrand does not reduce to ordinary assembly (J == A, rhs == b - A x)")
    out.sample({'integrand': fname, 'mesh': meshlabel, 'element': ename, 'N': int(N), 'linearisation_points': len(pts)}, 1)


def work(item, tier, seed):
    out = Out()
    out.set_item(item)
    warnings.simplefilter('ignore')
    if item[0] == 'helpers':
        helpers_work(item[1], item[2], out)
    elif item[0] == 'fields':
        fields_work(out)
    else:
        form_work(item[1], item[2], tier, seed, out)
    return out
