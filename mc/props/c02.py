"""C02 - integration is exact for polynomial data on cells and facets.

Straight-sided mesh states x monomials x integration orders x integration domains against
exact rational integrals (Fraction polynomial pull-backs); element matrices of Lagrange
elements pinned entrywise through the exact Gram matrices of a monomial basis of the local
space; partition-of-unity mass sums.
"""
from __future__ import annotations

import itertools
import math
import warnings
from fractions import Fraction as Fr

import numpy as np

from ..report import Out
from .. import meshspace as ms
from .. import meshops as mo
from .. import catalogue as cat
from .. import exact as ex
from ..exact import Poly
from ..topo import REF, KIND_OF_CLASS, Topo

ID = 'C02'
# sub-checks added after the seeded-change waves (DESIGN.md sections 5 and 6)
EXTENSIONS = [
    'orders beyond the enumeration bound are probed and must raise; exactly rotated (3-4-5) variant; facet mass entries; integrand-scaled tolerances',
    'derived bases (boundary / with_element / with_elements), explicitly restricted MappingAffine(mesh, tind=I), oriented facet sets with exact normal integrals, custom weights in float32 / float16',
]
LEVEL = 'exploration'
TECHNIQUE = "small-scope exhaustive enumeration (mesh states x monomials x orders x domains) against exact rational integrals"
LEVEL_TEXT = ("Every straight-sided seed of every cell type (plain, renumbered, cell-reordered, locally reordered, mirrored, "
              "anisotropically scaled, refined once and twice, adaptively refined) x every integration order n in the bound x "
              "ALL monomials of degree n (and 0) that the order promises on that geometry (admissibility on non-affine cells = "
              "per-direction degree of pull-back x Jacobian <= n, computed exactly) x domains {whole mesh, every saturated "
              "subdomain tag, boundary, all interior facets, every single facet, facet pairs}, compared with exact Fraction "
              "integrals (facet measures as exact square roots). Lagrange mass / stiffness / load element matrices of degree 0-4 "
              "(Q0-Q2, CR) with the DEFAULT integration order are pinned entrywise: V^T M_K V == exact Gram matrix for a monomial "
              "basis of the local space interpolated at the DOF locations (V invertible), for every cell. Partition-of-unity "
              "mass sums equal the exact measure, also on general quadrilaterals / hexahedra / prisms.")
LEVEL_NOTE = ("Dyadic coordinates make every reference value exact; facets of hexahedra are used only when parallelograms (constant "
              "surface factor); tolerance 2e-12 * sum|terms|. The quadrature tables themselves are decided completely in C08; here "
              "the pipeline (|det|, dx, default order, subset and facet selection) is the subject.")
RULE = ("case = (mesh state, order, monomial, domain) or (mesh state, element, cell, matrix kind). non-trivial = distinct case whose "
        "exact value is non-zero and whose monomial has the top degree the order must integrate.")
ASSUMPTIONS = ["straight-sided cells with dyadic coordinates", "hexahedral facets that are not parallelograms are skipped (non-polynomial surface factor)"]
BOUNDS = {'quick': {'orders': 'line/quad/hex 0..7, tri 0..8, tet 0..6, wedge 0..5', 'refinements': [0, 1]},
          'thorough': {'orders': 'line/quad/hex 0..12, tri 0..19, tet 0..8, wedge 0..10', 'refinements': [0, 1, 2]}}
ITEM_TIMEOUT = {'quick': 900, 'thorough': 7200}
ORD = {'quick': {'line': 7, 'tri': 8, 'quad': 7, 'tet': 6, 'hex': 5, 'wedge': 5},
       # orders requested beyond ORD up to ORD_PROBE: on the unchanged tree they are refused (counted); if a tree serves them they are judged
       'probe': {'tet': 11, 'tri': 21},
       'thorough': {'line': 12, 'tri': 19, 'quad': 12, 'tet': 8, 'hex': 8, 'wedge': 10}}
SEEDS = {'line': ['L3', 'L2c'], 'tri': ['T2', 'TL6', 'T3comp'], 'quad': ['Q1', 'Q2', 'Q4par', 'Qmix'], 'tet': ['K1', 'K3e'],
         'hex': ['H1', 'H2'], 'wedge': ['W2', 'W4']}


def variants(st0, tier):
    out = [('plain', lambda: st0.build())]
    dim = st0.p.shape[0]
    raws = list(ms.raw_transitions(st0, max_vertex_swaps=1))
    pick = []
    for pref in ('vswap', 'cswap', 'lorder'):
        pick += [r for r in raws if r[0].startswith(pref)][:1]
    for lab, nx in pick:
        out.append((lab, (lambda nx: lambda: nx.build())(nx)))
    out.append(('mirrored', lambda: st0.build().mirrored(tuple([1.] + [0.] * (dim - 1)))))
    out.append(('scaled', lambda: st0.build().scaled(tuple([2., -.5, 1.5][:dim]))))
    if dim >= 2:
        # exact rigid motion: rotation by 90 degrees about the last axis and a dyadic translation
        out.append(('rot90', lambda: st0.build().morphed(lambda p: -p[1] + .25, lambda p: p[0] - 1.5)))
    if st0.kind != 'wedge':
        out.append(('refined', lambda: st0.build().refined()))
        if st0.kind in ('line', 'tri', 'tet'):
            out.append(('adaptive', lambda: st0.build().refined(np.array([0]))))
        if tier == 'thorough' and st0.nt <= 3:
            out.append(('refined2', lambda: st0.build().refined(2)))
    return out


def items(tier, seed):
    its = []
    for kind, names in SEEDS.items():
        for n in names:
            st0 = ms.seeds(seed)[n]
            for lab, _ in variants(st0, tier):
                its.append((n, lab, 'monomials'))
            its.append((n, 'plain', 'matrices'))
            its.append((n, 'mirrored', 'matrices'))
    return its


def cost(item):
    return {'H2': 6, 'H1': 2, 'K3e': 4, 'W4': 4, 'TL6': 2, 'Q4par': 2}.get(item[0], 1) * (2 if item[1].startswith('refined') else 1)


# ---------------------------------------------------------------------------------------
# exact integrals
# ---------------------------------------------------------------------------------------

def ref_shape_polys(kind):
    """Reference shape functions of the first-order geometry as Poly (same local order as skfem.refdom)."""
    d = REF[kind]['dim']
    X = [Poly.var(d, i) for i in range(d)]
    one = Poly.const(d, 1)
    if kind == 'line':
        return [one - X[0], X[0]]
    if kind == 'tri':
        return [one - X[0] - X[1], X[0], X[1]]
    if kind == 'tet':
        return [one - X[0] - X[1] - X[2], X[0], X[1], X[2]]
    if kind == 'quad':
        return [(one - X[0]) * (one - X[1]), X[0] * (one - X[1]), X[0] * X[1], (one - X[0]) * X[1]]
    if kind == 'hex':
        from skfem.refdom import RefHex
        out = []
        for v in RefHex.p.T:
            f = one
            for k in range(3):
                f = f * (X[k] if v[k] == 1 else one - X[k])
            out.append(f)
        return out
    if kind == 'wedge':
        lam = [one - X[0] - X[1], X[0], X[1]]
        return [l * (one - X[2]) for l in lam] + [l * X[2] for l in lam]
    raise KeyError(kind)


_SH = {}


def cell_map(kind, pts):
    """Exact map reference -> physical as list of Poly (one per coordinate) and its Jacobian determinant."""
    if kind not in _SH:
        _SH[kind] = ref_shape_polys(kind)
    sh = _SH[kind]
    d = REF[kind]['dim']
    Fm = []
    for i in range(d):
        acc = Poly(d)
        for k, s in enumerate(sh):
            acc = acc + s * pts[k][i]
        Fm.append(acc)
    J = [[Fm[i].diff(j) for j in range(d)] for i in range(d)]
    det = ex.det_poly(J) if d > 1 else J[0][0]
    return Fm, det


def exact_cell_integral(kind, Fm, det, mono):
    """(exact integral of x^mono over the cell with |det|, per-direction degree of the pulled-back integrand)."""
    d = REF[kind]['dim']
    g = Poly.const(d, 1)
    for i, a in enumerate(mono):
        if a:
            g = g * (Fm[i] ** a)
    g = g * det
    val = g.integrate_ref(kind)
    return abs(val) if False else val, g


def det_sign(kind, det):
    """Sign of the Jacobian determinant on the reference cell (constant for valid cells): evaluate at the centroid."""
    d = REF[kind]['dim']
    c = {'line': (Fr(1, 2),), 'tri': (Fr(1, 3),) * 2, 'quad': (Fr(1, 2),) * 2, 'tet': (Fr(1, 4),) * 3, 'hex': (Fr(1, 2),) * 3,
         'wedge': (Fr(1, 3), Fr(1, 3), Fr(1, 2))}[kind]
    return 1 if det(*c) > 0 else -1


def order_admits(kind, g, n):
    """Does a rule of order n promise exactness for the pulled-back polynomial g?"""
    if g.is_zero():
        return True
    if kind in ('line', 'tri', 'tet'):
        return g.degree() <= n
    if kind in ('quad', 'hex'):
        return max((max(k) for k in g.c), default=0) <= n
    return max((k[0] + k[1] for k in g.c), default=0) <= n and max((k[2] for k in g.c), default=0) <= n


def monomials_of_degree(dim, n):
    return [e for e in itertools.product(range(n + 1), repeat=dim) if sum(e) == n]


def mono_fun(mono):
    def f(w):
        r = 1.0 + 0 * w.x[0]
        for i, a in enumerate(mono):
            if a:
                r = r * w.x[i] ** a
        return r
    return f


def facet_exact(kind, m, j, mono, fv):
    """Exact integral of x^mono over straight facet j: (rational factor, squared measure factor) so that the
    value is factor * sqrt(sq); returns None if the facet is not affine (non-parallelogram quadrilateral)."""
    P = [tuple(Fr(float(c)) for c in m.p[:, v]) for v in fv[j]]
    d = len(P[0])
    if len(P) == 1:
        val = Fr(1)
        for i, a in enumerate(mono):
            val *= P[0][i] ** a
        return val, Fr(1)
    if len(P) == 2:
        s = Poly.var(1, 0)
        xs = [Poly.const(1, P[0][i]) + s * (P[1][i] - P[0][i]) for i in range(d)]
        g = Poly.const(1, 1)
        for i, a in enumerate(mono):
            if a:
                g = g * xs[i] ** a
        return g.integrate_ref('line'), sum((P[1][i] - P[0][i]) ** 2 for i in range(d))
    if len(P) == 3:
        s, t = Poly.var(2, 0), Poly.var(2, 1)
        xs = [Poly.const(2, P[0][i]) + s * (P[1][i] - P[0][i]) + t * (P[2][i] - P[0][i]) for i in range(d)]
        g = Poly.const(2, 1)
        for i, a in enumerate(mono):
            if a:
                g = g * xs[i] ** a
        u = [P[1][i] - P[0][i] for i in range(3)]
        v = [P[2][i] - P[0][i] for i in range(3)]
        cr = [u[1] * v[2] - u[2] * v[1], u[2] * v[0] - u[0] * v[2], u[0] * v[1] - u[1] * v[0]]
        return g.integrate_ref('tri'), sum(c * c for c in cr)
    # quadrilateral facet (cyclic order): affine iff parallelogram
    if any(P[0][i] + P[2][i] != P[1][i] + P[3][i] for i in range(3)):
        return None
    s, t = Poly.var(2, 0), Poly.var(2, 1)
    xs = [Poly.const(2, P[0][i]) + s * (P[1][i] - P[0][i]) + t * (P[3][i] - P[0][i]) for i in range(3)]
    g = Poly.const(2, 1)
    for i, a in enumerate(mono):
        if a:
            g = g * xs[i] ** a
    u = [P[1][i] - P[0][i] for i in range(3)]
    v = [P[3][i] - P[0][i] for i in range(3)]
    cr = [u[1] * v[2] - u[2] * v[1], u[2] * v[0] - u[0] * v[2], u[0] * v[1] - u[1] * v[0]]
    return g.integrate_ref('quad'), sum(c * c for c in cr)


# ---------------------------------------------------------------------------------------
def get_state(name, lab, seed, tier):
    st0 = ms.seeds(seed)[name]
    for l, b in variants(st0, tier):
        if l == lab:
            return st0, b()
    raise KeyError(lab)


def work(item, tier, seed):
    name, lab, mode = item
    out = Out()
    out.set_item(item)
    warnings.simplefilter('ignore')
    st0, m = get_state(name, lab, seed, tier)
    if mode == 'monomials':
        monomial_checks(st0, m, name, lab, tier, out)
    else:
        matrix_checks(st0, m, name, lab, tier, out)
    return out


def default_elem(kind):
    import skfem.element as E
    return {'line': E.ElementLineP1, 'tri': E.ElementTriP1, 'quad': E.ElementQuad1, 'tet': E.ElementTetP1, 'hex': E.ElementHex1,
            'wedge': E.ElementWedge1}[kind]


def monomial_checks(st0, m, name, lab, tier, out):
    from skfem import CellBasis, FacetBasis, InteriorFacetBasis, Functional
    kind = st0.kind
    dim = REF[kind]['dim']
    nn = REF[kind]['nn']
    nt = m.t.shape[1]
    nmax = ORD[tier][kind]
    mt = mo.with_saturated_tags(m, sub_full_upto=4)
    maps = []
    for c in range(nt):
        pts = [tuple(Fr(float(x)) for x in m.p[:, v]) for v in m.t[:nn, c]]
        Fm, det = cell_map(kind, pts)
        maps.append((Fm, det, det_sign(kind, det)))
    subs = {k: [int(c) for c in v] for k, v in mt.subdomains.items()}
    subnames = sorted(subs)[:10] + (['sEMPTY'] if 'sEMPTY' in subs else [])
    fv = mo.facet_vertex_lists(kind, m) if kind != 'wedge' else None
    nf = m.facets.shape[1]
    bfac = [int(j) for j in m.boundary_facets()]
    ifac = [j for j in range(nf) if j not in bfac]
    E = default_elem(kind)
    pmax = float(np.abs(m.p).max())
    vol_f = float(sum((abs(ex.simplex_signed_measure([tuple(Fr(float(x)) for x in m.p[:, v]) for v in m.t[:dim + 1, c]]))
                       for c in range(nt)), Fr(0))) if kind in ('line', 'tri', 'tet') else float(
        np.prod(m.p.max(axis=1) - m.p.min(axis=1)))
    fmeas = {}
    if fv is not None:
        for j in range(nf):
            r = facet_exact(kind, m, j, (0,) * dim, fv)
            fmeas[j] = 1.0 if r is None else float(r[0]) * math.sqrt(float(r[1]))
    sig0 = f"C02|{type(m).__name__}|"

    def bad(what, msg, **kw):
        out.violation(sig0 + what, f"{msg} [seed {name}, variant {lab}]", case=dict(seed=name, variant=lab, **kw))
    nprobe = ORD['probe'].get(kind, nmax)
    for n in list(range(0, nmax + 1)) + [k_ for k_ in range(nmax + 1, nprobe + 1) if nt <= 3]:
        try:
            cb = CellBasis(mt, E(), intorder=n)
        except NotImplementedError:
            out.count('order_not_tabulated')
            continue
        if n > nmax:
            out.count('orders_beyond_the_bound_served_and_judged')
        monos = monomials_of_degree(dim, n) + ([(0,) * dim] if n > 0 else [])
        sub_bases = {}
        for mono in monos:
            per_cell = []
            admissible = True
            for (Fm, det, sg) in maps:
                val, g = exact_cell_integral(kind, Fm, det, mono)
                per_cell.append(val * sg)
                if not order_admits(kind, g, n):
                    admissible = False
            if not admissible:
                out.count('monomials_beyond_what_the_order_promises_on_nonaffine_cells')
                continue
            f = mono_fun(mono)
            F = Functional(f)
            # whole mesh + per cell
            out.ev()
            tot = float(sum(per_cell, Fr(0)))
            got = F.assemble(cb)
            el = F.elemental(cb)
            # scale of the integrand (not of the possibly cancelling integral): |x|max^deg * measure
            floor_ = (1 + pmax) ** sum(mono) * vol_f * 1e-3
            mag = sum(abs(float(v)) for v in per_cell) + floor_
            if abs(got - tot) > 2e-12 * (mag + abs(tot)):
                bad('cells', f"integral of x^{mono} with order {n} = {got!r}, exact {tot!r}", order=n, monomial=mono)
                continue
            ec = np.array([float(v) for v in per_cell])
            if el.shape != ec.shape or np.abs(el - ec).max() > 2e-12 * (np.abs(ec).max() + floor_):
                c = int(np.abs(el - ec).argmax())
                bad('cell-elemental', f"cell {c}: integral of x^{mono} with order {n} = {el[c]!r}, exact {ec[c]!r}", order=n,
                    monomial=mono)
                continue
            if tot != 0 and n > 0 and sum(mono) == n:
                out.nt((name, lab, n, mono, 'cells'))
            # tagged subdomains
            for sn in subnames:
                if sn not in sub_bases:
                    sub_bases[sn] = CellBasis(mt, E(), elements=sn, intorder=n)
                gs = F.assemble(sub_bases[sn])
                es = float(sum((per_cell[c] for c in subs[sn]), Fr(0)))
                out.ev()
                if abs(gs - es) > 2e-12 * (mag + abs(es)):
                    bad('subdomain', f"integral of x^{mono} over subdomain '{sn}' (cells {subs[sn]}) with order {n} = {gs!r}, "
                        f"exact {es!r}", order=n, monomial=mono, subdomain=sn)
                    break
        out.outcome((kind, n, len(monos)))
        # ---- facets
        if kind == 'wedge':
            continue
        try:
            fb_b = FacetBasis(mt, E(), intorder=n)
            fb_i0 = InteriorFacetBasis(mt, E(), intorder=n, side=0) if ifac else None
            fb_i1 = InteriorFacetBasis(mt, E(), intorder=n, side=1) if ifac else None
        except NotImplementedError:
            continue
        singles = list(range(nf))[:10]
        fb_s = {j: FacetBasis(mt, E(), facets=np.array([j], dtype=np.int32), intorder=n) for j in singles}
        pair = (0, nf - 1)
        fb_p = FacetBasis(mt, E(), facets=np.array(pair, dtype=np.int64), intorder=n)
        for mono in monos:
            fe = {}
            skip = False
            for j in range(nf):
                r = facet_exact(kind, m, j, mono, fv)
                if r is None:
                    fe[j] = None
                else:
                    fe[j] = float(r[0]) * math.sqrt(float(r[1]))
            F = Functional(mono_fun(mono))

            def cmpf(label, basis, fac):
                if any(fe[j] is None for j in fac):
                    out.count('non_parallelogram_facets_skipped')
                    return True
                es = sum(fe[j] for j in fac)
                mg = sum(abs(fe[j]) for j in fac) + (1 + pmax) ** sum(mono) * sum(fmeas[j] for j in fac) * 1e-3
                gs = F.assemble(basis)
                out.ev()
                if abs(gs - es) > 4e-12 * (mg + abs(es)):
                    bad('facets', f"integral of x^{mono} over {label} (facets {list(fac)[:8]}) with order {n} = {gs!r}, exact "
                        f"{es!r}", order=n, monomial=mono, facets=list(fac))
                    return False
                if es != 0 and sum(mono) == n and n > 0:
                    out.nt((name, lab, n, mono, label))
                return True
            ok = cmpf('boundary', fb_b, bfac)
            if ok and fb_i0 is not None:
                ok = cmpf('interior-side0', fb_i0, ifac) and cmpf('interior-side1', fb_i1, ifac)
            if ok:
                ok = cmpf('facet-pair', fb_p, pair)
            if ok:
                for j in singles:
                    if not cmpf(f'facet[{j}]', fb_s[j], (j,)):
                        break
    try:
        derived_basis_checks(st0, m, mt, name, lab, tier, out, bad, maps, fv, subs, bfac, ifac)
    except NotImplementedError:
        out.count('derived_bases_not_implemented')
    except Exception as e:
        # every construction in there is a legal use of the public API (it works on the unchanged tree)
        import traceback
        tb = traceback.extract_tb(e.__traceback__)
        where = next((f"{fr.name}:{fr.line}" for fr in tb if fr.filename.endswith('c02.py') and fr.name != 'monomial_checks'), '')
        bad('derived-basis-exception', f"a derived / explicitly parametrised basis raised {e!r} at [{where[:160]}]")
    out.sample({'seed': name, 'variant': lab, 'class': type(m).__name__, 'cells': int(nt), 'orders': [0, nmax],
                'subdomain_tags': len(subnames)}, 1)


def facet_normal_exact(kind, m, j, mono, fv, cell):
    """Exact (rational) vector  int_facet x^mono n ds  with n the unit normal pointing out of `cell`: on a straight facet
    n ds = N dt with N the (non-normalised) normal of the parametrisation, so no square root is needed.  None for
    non-affine (non-parallelogram) quadrilateral facets."""
    P = [tuple(Fr(float(c)) for c in m.p[:, v]) for v in fv[j]]
    d = len(P[0])
    nn = REF[kind]['nn']
    cc = [sum((Fr(float(m.p[i, v])) for v in m.t[:nn, cell]), Fr(0)) / nn for i in range(d)]
    fc = [sum((q[i] for q in P), Fr(0)) / len(P) for i in range(d)]
    if len(P) == 1:
        N = [Fr(1)]
        integ = Fr(1)
        for i, a in enumerate(mono):
            integ *= P[0][i] ** a
    elif len(P) == 2:
        e = [P[1][i] - P[0][i] for i in range(2)]
        N = [e[1], -e[0]]
        sv = Poly.var(1, 0)
        xs = [Poly.const(1, P[0][i]) + sv * e[i] for i in range(2)]
        g = Poly.const(1, 1)
        for i, a in enumerate(mono):
            if a:
                g = g * xs[i] ** a
        integ = g.integrate_ref('line')
    else:
        if len(P) == 4 and any(P[0][i] + P[2][i] != P[1][i] + P[3][i] for i in range(3)):
            return None
        u = [P[1][i] - P[0][i] for i in range(3)]
        v = [P[-1][i] - P[0][i] for i in range(3)] if len(P) == 4 else [P[2][i] - P[0][i] for i in range(3)]
        N = [u[1] * v[2] - u[2] * v[1], u[2] * v[0] - u[0] * v[2], u[0] * v[1] - u[1] * v[0]]
        sv, tv = Poly.var(2, 0), Poly.var(2, 1)
        xs = [Poly.const(2, P[0][i]) + sv * u[i] + tv * v[i] for i in range(3)]
        g = Poly.const(2, 1)
        for i, a in enumerate(mono):
            if a:
                g = g * xs[i] ** a
        integ = g.integrate_ref('quad' if len(P) == 4 else 'tri')
    if sum(N[i] * (fc[i] - cc[i]) for i in range(d)) < 0:
        N = [-x for x in N]
    return [integ * x for x in N]


def derived_basis_checks(st0, m, mt, name, lab, tier, out, bad, maps, fv, subs, bfac, ifac):
    """The same exact integrals through bases that are DERIVED from another basis or built with explicitly passed parts:
    boundary() / with_element() / with_elements(), an explicitly restricted affine mapping, oriented facet sets (normal
    integrals), custom quadrature whose weights come in another dtype."""
    from skfem import CellBasis, FacetBasis, Functional
    from skfem.generic_utils import OrientedBoundary
    import skfem.element as SE
    kind = st0.kind
    dim = REF[kind]['dim']
    nt = m.t.shape[1]
    E = default_elem(kind)
    E0 = {'line': SE.ElementLineP0, 'tri': SE.ElementTriP0, 'quad': SE.ElementQuad0, 'tet': SE.ElementTetP0, 'hex': SE.ElementHex0,
          'wedge': None}[kind]
    n = min(ORD[tier][kind], 3)
    monos = [mn for mn in monomials_of_degree(dim, n)]
    admissible = [mn for mn in monos if all(order_admits(kind, exact_cell_integral(kind, Fm, det, mn)[1], n) for Fm, det, _ in maps)]
    cb = CellBasis(mt, E(), intorder=n)
    per_cell = {mn: [exact_cell_integral(kind, Fm, det, mn)[0] * sg for Fm, det, sg in maps] for mn in admissible}

    volc = [abs(float(exact_cell_integral(kind, Fm, det, (0,) * dim)[0])) for Fm, det, _ in maps]
    pmax_c = float(np.abs(m.p).max())

    def cmp_cells(label, basis, cells):
        for mn in admissible:
            es = float(sum((per_cell[mn][c] for c in cells), Fr(0)))
            # scale of the integrand, not of the (possibly cancelling) integral
            mg = sum(abs(float(per_cell[mn][c])) for c in cells) + (1 + pmax_c) ** sum(mn) * sum(volc[c] for c in cells) * 1e-3
            out.ev()
            gs = Functional(mono_fun(mn)).assemble(basis)
            if abs(gs - es) > 4e-12 * (mg + abs(es)):
                bad('derived-basis-cells', f"integral of x^{mn} over cells {list(cells)[:6]} through {label} (order {n}) = {gs!r}, "
                    f"exact {es!r}", order=n, monomial=mn, basis=label)
                return False
            el = Functional(mono_fun(mn)).elemental(basis)
            ec = np.array([float(per_cell[mn][c]) for c in cells])
            if el.shape != ec.shape or np.abs(el - ec).max() > 4e-12 * (np.abs(ec).max() + mg):
                bad('derived-basis-cell-elemental', f"per-cell integrals of x^{mn} through {label} (order {n}) differ from the exact "
                    f"ones of cells {list(cells)[:6]} in this order", order=n, monomial=mn, basis=label)
                return False
        out.nt((name, lab, 'derived', label))
        return True
    # --- cell bases derived from cb
    allc = list(range(nt))
    if E0 is not None:
        cmp_cells('CellBasis.with_element(P0)', cb.with_element(E0()), allc)
    orders = [list(range(nt))[::-1]]
    if nt >= 3:
        orders += [[2, 0, 1], [nt - 1, 0]]
    if nt >= 2:
        orders += [[1, 0], [nt - 1]]
    for I in orders:
        Ia = np.array(I, dtype=np.int32)
        cmp_cells(f'CellBasis.with_elements({I})', cb.with_elements(Ia), I)
        # explicitly restricted affine mapping (the default mapping of simplicial meshes)
        from skfem.mapping import MappingAffine
        if isinstance(mt._mapping(), MappingAffine):
            cmp_cells(f'CellBasis(mapping=MappingAffine(mesh, tind={I}), elements={I})',
                      CellBasis(mt, E(), mapping=MappingAffine(mt, tind=Ia), elements=Ia, intorder=n), I)
    for sn in sorted(subs)[:3]:
        if subs[sn]:
            cmp_cells(f"CellBasis.with_elements('{sn}')", cb.with_elements(sn), subs[sn])
    # --- custom quadrature: the values of the weights count, not their dtype
    X, W = cb.quadrature
    W32 = np.asarray(W).astype(np.float32)
    for dt in (np.float32, np.float16):
        Wd = W32.astype(np.float16).astype(dt) if dt is np.float16 else W32
        b1 = CellBasis(mt, E(), quadrature=(X, Wd))
        b2 = CellBasis(mt, E(), quadrature=(X, Wd.astype(np.float64)))
        out.ev()
        if b1.dx.dtype != np.float64 or np.abs(b1.dx - b2.dx).max() > 1e-15 * np.abs(b2.dx).max():
            bad('quadrature-weight-dtype', f"CellBasis(quadrature=(X, W)) with {np.dtype(dt).name} weights: dx has dtype {b1.dx.dtype} / "
                f"differs from the same weights as float64 by {np.abs(b1.dx - b2.dx).max():.3e}", basis='CellBasis')
    if kind == 'wedge':
        return
    # --- facet bases derived from cb / from another facet basis
    fe = {}
    for mn in monos:
        for j in range(m.facets.shape[1]):
            r = facet_exact(kind, m, j, mn, fv)
            fe[(mn, j)] = None if r is None else float(r[0]) * math.sqrt(float(r[1]))

    fm = {}
    for j in range(m.facets.shape[1]):
        r = facet_exact(kind, m, j, (0,) * dim, fv)
        fm[j] = 0.0 if r is None else float(r[0]) * math.sqrt(float(r[1]))
    pmax = float(np.abs(m.p).max())

    def cmp_facets(label, basis, fac):
        for mn in monos:
            if any(fe[(mn, j)] is None for j in fac):
                continue
            es = sum(fe[(mn, j)] for j in fac)
            mg = sum(abs(fe[(mn, j)]) for j in fac) + 1e-300
            out.ev()
            gs = Functional(mono_fun(mn)).assemble(basis)
            if abs(gs - es) > 4e-12 * (mg + abs(es) + (1 + pmax) ** sum(mn) * sum(fm[j] for j in fac) * 1e-3):
                bad('derived-basis-facets', f"integral of x^{mn} over facets {list(fac)[:8]} through {label} (order {n}) = {gs!r}, exact "
                    f"{es!r}", order=n, monomial=mn, basis=label)
                return False
        out.nt((name, lab, 'derived', label))
        return True
    cmp_facets('CellBasis.boundary(intorder=n)', cb.boundary(intorder=n), bfac)
    cb_low = CellBasis(mt, E(), intorder=0)
    cmp_facets('CellBasis(intorder=0).boundary(intorder=n)', cb_low.boundary(intorder=n), bfac)
    pair = [bfac[0], bfac[-1]]
    cmp_facets(f'CellBasis.boundary({pair}, intorder=n)', cb.boundary(np.array(pair, dtype=np.int32), intorder=n), pair)
    fb = FacetBasis(mt, E(), intorder=n)
    if E0 is not None:
        cmp_facets('FacetBasis.with_element(P0)', fb.with_element(E0()), bfac)
    Xf, Wf = fb.quadrature
    Wf32 = np.asarray(Wf).astype(np.float32)
    b1 = FacetBasis(mt, E(), quadrature=(Xf, Wf32))
    b2 = FacetBasis(mt, E(), quadrature=(Xf, Wf32.astype(np.float64)))
    out.ev()
    if b1.dx.dtype != np.float64 or np.abs(b1.dx - b2.dx).max() > 1e-15 * np.abs(b2.dx).max():
        bad('quadrature-weight-dtype', f"FacetBasis(quadrature=(X, W)) with float32 weights: dx has dtype {b1.dx.dtype} / differs from "
            f"the same weights as float64 by {np.abs(b1.dx - b2.dx).max():.3e}", basis='FacetBasis')
    # --- oriented facet sets: int x^mono n ds with n pointing out of the cell the orientation names, directly and through
    #     with_element(); all orientation patterns of up to three interior facets plus two boundary facets
    sel = [int(j) for j in ifac[:3]]
    if not sel:
        return
    for bits in itertools.product((0, 1), repeat=len(sel)):
        fac = np.array(sel[::-1] + pair[:1], dtype=np.int32)          # unsorted on purpose
        ori = np.array(list(bits)[::-1] + [0], dtype=np.int32)
        ob = OrientedBoundary(fac, ori)
        fbo = FacetBasis(mt, E(), facets=ob, intorder=n)
        derived = [('FacetBasis(facets=OrientedBoundary)', fbo)]
        if E0 is not None:
            derived.append(('FacetBasis(facets=OrientedBoundary).with_element(P0)', fbo.with_element(E0())))
        for label, basis in derived:
            okb = True
            for mn in monos:
                want = [Fr(0)] * dim
                mg = 0.0
                skip = False
                for j, o in zip(fac, ori):
                    r = facet_normal_exact(kind, m, int(j), mn, fv, int(m.f2t[o, j]))
                    if r is None:
                        skip = True
                        break
                    want = [a + b for a, b in zip(want, r)]
                    mg += sum(abs(float(x)) for x in r)
                if skip:
                    continue
                out.ev()
                got = Functional(lambda w, mn=mn: mono_fun(mn)(w) * w.n).assemble(basis)
                wantf = np.array([float(x) for x in want])
                if np.shape(got) != (dim,) or np.abs(got - wantf).max() > 4e-12 * (mg + 1e-300):
                    bad('oriented-facets-normal-integral', f"int x^{mn} n ds over the oriented facets {fac.tolist()} (orientation "
                        f"{ori.tolist()}) through {label} = {np.asarray(got).tolist()}, exact {wantf.tolist()}", order=n, monomial=mn,
                        basis=label, facets=fac.tolist(), ori=ori.tolist())
                    okb = False
                    break
            if okb and any(bits):
                out.nt((name, lab, 'oriented', label, bits))


# ---------------------------------------------------------------------------------------
# Lagrange element matrices pinned through exact Gram matrices
# ---------------------------------------------------------------------------------------

def local_space_monomials(ent, kind):
    """Reference monomials spanning the local space of a nodal polynomial element."""
    d = REF[kind]['dim']
    k = ent.deg
    if ent.family == 'CR':
        k = 1
    if kind in ('line', 'tri', 'tet'):
        return ex.monomials_total(d, k)
    if 'S2' in ent.name:
        if kind == 'quad':
            return [(0, 0), (1, 0), (0, 1), (1, 1), (2, 0), (0, 2), (2, 1), (1, 2)]
        return None
    if kind in ('quad', 'hex'):
        return ex.monomials_box(d, k)
    if kind == 'wedge':
        return [(a, b, c) for (a, b) in ex.monomials_total(2, 1) for c in range(2)]
    return None


def affine_inverse(kind, pts):
    """Exact inverse of an affine cell map: reference coordinates as Poly in physical coordinates (None if not affine)."""
    d = REF[kind]['dim']
    Fm, det = cell_map(kind, pts)
    if any(max((sum(k) for k in f.c), default=0) > 1 for f in Fm):
        return None
    A = [[Fm[i].c.get(tuple(1 if q == j else 0 for q in range(d)), Fr(0)) for j in range(d)] for i in range(d)]
    b = [Fm[i].c.get((0,) * d, Fr(0)) for i in range(d)]
    inv = ex.solve_fr(A, [[Fr(1) if i == j else Fr(0) for j in range(d)] for i in range(d)])
    if inv is None:
        return None
    xs = [Poly.var(d, i) for i in range(d)]
    return [sum((inv[i][j] * (xs[j] - b[j]) for j in range(d)), Poly(d)) for i in range(d)], Fm, det


def matrix_checks(st0, m, name, lab, tier, out):
    from skfem import CellBasis, BilinearForm, LinearForm
    kind = st0.kind
    dim = REF[kind]['dim']
    nn = REF[kind]['nn']
    nt = m.t.shape[1]
    sig0 = f"C02|{type(m).__name__}|"
    ents = [e for e in cat.entries(kind, wrappers=False, pmax_line=1, pmax_quad=1)
            if e.nodal and e.family in ('H1', 'L2', 'CR') and (e.pou or e.family == 'CR') and e.kind == kind]
    exact_vol = Fr(0)
    cells = []
    for c in range(nt):
        pts = [tuple(Fr(float(x)) for x in m.p[:, v]) for v in m.t[:nn, c]]
        cells.append(pts)
    from ..topo import cell_measure
    exact_vol = float(sum((cell_measure(kind, pts) for pts in cells), Fr(0)))
    mass = BilinearForm(lambda u, v, w: u * v)
    stiff = BilinearForm(lambda u, v, w: sum(u.grad[k] * v.grad[k] for k in range(dim)))
    fmono = tuple([1] + [0] * (dim - 1))
    load = LinearForm(lambda v, w: (w.x[0] + 2.0) * v)
    for ent in ents:
        case0 = dict(seed=name, variant=lab, element=ent.name)

        def bad(what, msg):
            out.violation(sig0 + what + '|' + ent.name, f"{msg} [element {ent.name}, seed {name}, variant {lab}]", case=case0)
        # partition of unity: sum of all mass entries == measure (default order), on any straight geometry
        if ent.pou:
            b = CellBasis(m, ent.make())
            M = mass.assemble(b)
            out.ev()
            if abs(M.sum() - exact_vol) > 1e-12 * (1 + exact_vol):
                bad('mass-sum', f"sum of mass matrix entries {M.sum()!r} != measure {exact_vol!r}")
            else:
                out.nt((name, lab, ent.name, 'mass-sum'))
        # boundary mass matrix of degree-one Lagrange elements: the trace on a straight facet is linear, so the
        # entries are |F|/3 and |F|/6 (2-D) whatever the shape of the cell
        if dim == 2 and ent.name in ('ElementTriP1', 'ElementQuad1') and kind != 'wedge':
            from skfem import FacetBasis
            fb = FacetBasis(m, ent.make())
            Mb = mass.assemble(fb).toarray()
            want = np.zeros_like(Mb)
            for j in m.boundary_facets():
                a, b_ = (int(v) for v in m.facets[:, j])
                L_ = float(np.linalg.norm(m.p[:, a] - m.p[:, b_]))
                da, db = int(fb.nodal_dofs[0, a]), int(fb.nodal_dofs[0, b_])
                want[da, da] += L_ / 3
                want[db, db] += L_ / 3
                want[da, db] += L_ / 6
                want[db, da] += L_ / 6
            out.ev()
            if np.abs(Mb - want).max() > 1e-12 * (1 + np.abs(want).max()):
                i_, j_ = np.unravel_index(np.abs(Mb - want).argmax(), want.shape)
                bad('facet-mass-entries', f"boundary mass entry [{i_},{j_}] = {Mb[i_, j_]!r}, exact {want[i_, j_]!r}")
            else:
                out.nt((name, lab, ent.name, 'facet-mass'))
        mons = local_space_monomials(ent, kind)
        if mons is None:
            continue
        for c in range(nt):
            inv = affine_inverse(kind, cells[c])
            if inv is None:
                out.count('nonaffine_cells_skipped_for_entrywise_matrices')
                continue
            Xi, Fm, det = inv
            sg = det_sign(kind, det)
            # local basis functions as exact polynomials in physical coordinates
            funs = []
            for e in mons:
                f = Poly.const(dim, 1)
                for i, a in enumerate(e):
                    if a:
                        f = f * Xi[i] ** a
                funs.append(f)
            b = CellBasis(m, ent.make(), elements=np.array([c], dtype=np.int32))
            dofs = b.element_dofs[:, 0]
            locs = b.doflocs[:, dofs]
            V = np.array([[float(f(*[Fr(float(x)) for x in locs[:, k]])) for f in funs] for k in range(len(dofs))])
            if V.shape[0] != V.shape[1]:
                out.count('local_space_dimension_mismatch:' + ent.name)
                break
            if np.linalg.cond(V) > 1e9:
                out.count('vandermonde_singular:' + ent.name)
                break

            def exact_int(poly):
                # integrate polynomial (in physical coordinates) over the cell exactly
                g = poly.compose(Fm) * det
                return g.integrate_ref(kind) * sg
            G = np.array([[float(exact_int(fi * fj)) for fj in funs] for fi in funs])
            K = np.array([[float(exact_int(sum((fi.diff(k) * fj.diff(k) for k in range(dim)), Poly(dim)))) for fj in funs]
                          for fi in funs])
            L = np.array([float(exact_int(fi * (Poly.var(dim, 0) + 2))) for fi in funs])
            Mc = mass.assemble(b).toarray()[np.ix_(dofs, dofs)]
            Kc = stiff.assemble(b).toarray()[np.ix_(dofs, dofs)]
            Lc = load.assemble(b)[dofs]
            for what, got, want in (('mass', V.T @ Mc @ V, G), ('stiffness', V.T @ Kc @ V, K), ('load', V.T @ Lc, L)):
                out.ev()
                sc = np.abs(want).max() + np.abs(V).max() ** 2 * np.abs(got).max() * 1e-3 + 1e-300
                if np.abs(got - want).max() > 5e-11 * sc:
                    bad(what + '-entries', f"cell {c}: {what} matrix with the default integration order is not exact "
                        f"(max deviation {np.abs(got - want).max():.3e} of {np.abs(want).max():.3e} in the monomial basis)")
                    break
            else:
                out.nt((name, lab, ent.name, c))
        out.outcome((ent.name, kind))
    out.sample({'seed': name, 'variant': lab, 'elements': [e.name for e in ents][:6], 'cells': int(nt)}, 1)
