"""C09 - shape functions: derivatives are true derivatives; duality; partition of unity.

Catalogue x every local index x unisolvent lattice, on the reference cell and on mapped cells
(affine sheared, mirrored, general multilinear): delivered derivative fields vs a 7-point
central finite-difference derivative (exact for per-direction degree <= 6) of the delivered
lower-order field, pushed to physical coordinates with the chain rule.
"""
from __future__ import annotations

import itertools
import warnings

import numpy as np

from ..report import Out
from .. import catalogue as cat
from .. import meshspace as ms
from ..topo import REF

ID = 'C09'
# sub-checks added after the seeded-change waves (DESIGN.md sections 5 and 6)
EXTENSIONS = [
    'block-by-block re-evaluation on the same element object (consecutive same-x / same-y blocks); sort_t=False triangle variant',
]
LEVEL = 'exploration'
TECHNIQUE = "exhaustive enumeration (element catalogue x local index x lattice x cell geometry) with a finite-difference oracle exact for the polynomial degrees involved"
LEVEL_TEXT = ("Every exported element (plus p-parametrised ones and vector / DG / composite wrappers) x EVERY local basis function "
              "x every point of a lattice of the reference cell x a set of cell geometries (reference, sheared/scaled affine, "
              "mirrored, general multilinear; several cells with different local orders) x both point layouts. Each delivered "
              "derivative field (grad, div, curl, hess, grad3..grad6) is compared with the derivative of the delivered lower field "
              "obtained by a 7-point central difference in reference coordinates (exact up to rounding for per-direction degree "
              "<= 6, which covers the catalogue) and the chain rule through the mapping's inverse Jacobian. Polynomial identities "
              "hold everywhere if they hold on the lattice. Also: phi_i(x_j) = delta_ij and sum phi_i = 1 for nodal / "
              "partition-of-unity elements; facet fluxes (lowest-order H(div)), edge circulations (lowest-order H(curl)) and the "
              "point/derivative functionals named by dofnames (global elements) are dual to the basis.")
LEVEL_NOTE = ("The mapping's Jacobian is trusted here (it is itself checked against finite differences of F in C10); on non-affine "
              "cells Piola-mapped fields are rational, so the finite-difference comparison is accurate to ~1e-10 rather than exact "
              "(tolerance 2e-7 relative). Skeleton elements (facet indicator functions) have no derivative claim.")
RULE = ("case = (element, mesh geometry, local index, field). non-trivial = distinct (element, geometry, local index, derivative "
        "field) in which the compared derivative field is not identically zero.")
ASSUMPTIONS = ["finite-difference step 2^-7 in reference coordinates; evaluation slightly outside the reference cell is legitimate "
               "for polynomial shape functions",
               "tolerance 2e-7 * (1 + max|field|)"]
BOUNDS = {'quick': {'p_line': 3, 'p_quad': 3, 'lattice_n': 3}, 'thorough': {'p_line': 5, 'p_quad': 4, 'lattice_n': 4}}
ITEM_TIMEOUT = {'quick': 900, 'thorough': 3600}
H = 2.0 ** -7
FD = np.array([-1 / 60, 3 / 20, -3 / 4, 0, 3 / 4, -3 / 20, 1 / 60]) / H
GEOMS = {'line': ['L3', 'Lrev'], 'tri': ['T2', 'TL6'], 'quad': ['Q2', 'Q4par'], 'tet': ['K2', 'K3e'], 'hex': ['H1', 'H2'],
         'wedge': ['W2']}
GEOMS_THOROUGH = {'line': ['L2c'], 'tri': ['Tfan4', 'T3comp'], 'quad': ['Q1', 'Q4gen', 'Qmix'], 'tet': ['K1', 'K5'], 'hex': ['H4'],
                  'wedge': ['W4']}
AXIS_ALIGNED = {'quad': ['Q4par'], 'hex': ['H1']}    # for elements defined on rectangles / boxes only


def lattice(kind, n):
    dim = REF[kind]['dim']
    g = [(i + .5) / (n + 1) for i in range(n + 1)]
    pts = []
    for q in itertools.product(g, repeat=dim):
        if kind in ('tri', 'tet') and sum(q) >= 1:
            continue
        if kind == 'wedge' and q[0] + q[1] >= 1:
            continue
        pts.append(q)
    # irrational-free but asymmetric shift so that symmetric cancellations cannot hide an error
    P = np.array(pts).T
    P = P * (1 - 1 / 64.) + 1 / 257.
    return P


def all_entries(tier):
    bd = BOUNDS[tier]
    return cat.entries(None, wrappers=True, pmax_line=bd['p_line'], pmax_quad=bd['p_quad'])


def items(tier, seed):
    its = []
    for ent in all_entries(tier):
        if ent.kind is None:
            its.append((ent.name, None, 'unclassified'))
            continue
        geoms = GEOMS[ent.kind] + (GEOMS_THOROUGH.get(ent.kind, []) if tier == 'thorough' else [])
        for g in geoms:
            for variant in ('plain', 'mirrored') + (('unsorted',) if ent.kind == 'tri' else ()) + (
                    ('lorder', 'vswap', 'scaled') if tier == 'thorough' else ()):
                its.append((ent.name, g, variant))
        its.append((ent.name, None, 'reference'))
    return its


def cost(item):
    n = item[0]
    return 30 if any(s in n for s in ('Argyris', 'HexC1', 'BFS', '15Param', 'Hex2', 'HexS2')) else 3 if 'Hex' in n else 1


def build_mesh(ent, geom, variant, seed):
    import skfem.mesh as M
    kind = ent.kind
    cls = {'line': 'MeshLine1', 'tri': 'MeshTri1', 'quad': 'MeshQuad1', 'tet': 'MeshTet1', 'hex': 'MeshHex1',
           'wedge': 'MeshWedge1'}[kind]
    if variant == 'reference':
        return getattr(M, cls).init_refdom()
    base = ent.name.split('(')[0]
    axis_only = any(a in ent.name for a in ('ElementQuadBFS', 'ElementHexC1'))
    if axis_only:
        # rectangles / boxes with unequal side lengths
        if kind == 'quad':
            m = M.MeshQuad1.init_tensor(np.array([0., .75, 2.]), np.array([-.5, 0., 1.5]))
        else:
            m = M.MeshHex1.init_tensor(np.array([0., .75]), np.array([-.5, 1.]), np.array([0., .5, 2.]))
    else:
        st0 = ms.seeds(seed)[geom]
        m = st0.build()
        if variant == 'lorder':
            r = [x for x in ms.raw_transitions(st0) if x[0].startswith('lorder')]
            m = (r[len(r) // 2][1] if r else st0).build()
        elif variant == 'vswap':
            m = list(ms.raw_transitions(st0))[0][1].build()
        elif variant == 'scaled':
            m = m.scaled(tuple([4., .25, -2.][:m.p.shape[0]]))
        elif variant == 'unsorted':
            # triangles handed over with sort_t=False: every column rotated differently, odd columns reversed, so local
            # edges run with and against the global direction
            t = st0.t.copy()
            for c in range(t.shape[1]):
                col = np.roll(t[:, c], c % 3 + 1)
                t[:, c] = col[::-1] if c % 2 else col
            m = M.MeshTri1(st0.p.copy(), t, sort_t=False)
    if variant == 'mirrored':
        dim = m.p.shape[0]
        m = m.mirrored(tuple([1.] + [0.] * (dim - 1)))
    return m


def fields_of(df):
    names = ['value', 'grad', 'div', 'curl', 'hess', 'grad3', 'grad4', 'grad5', 'grad6']
    out = {}
    tup = df.astuple
    for nme, a in zip(names, tup):
        if a is not None:
            out[nme] = np.asarray(a)
    return out


def work(item, tier, seed):
    name, geom, variant = item
    out = Out()
    out.set_item(item)
    if variant == 'unclassified':
        out.count('unclassified:' + name)
        out.ev()
        return out
    ent = cat.by_name(name)
    if ent.family == 'unclassified':
        out.count('unclassified:' + name)
        out.ev()
        return out
    kind = ent.kind
    dim = REF[kind]['dim']
    with warnings.catch_warnings():
        warnings.simplefilter('ignore')
        m = build_mesh(ent, geom, variant, seed)
        elem = ent.make()
        mapping = m._mapping()
    n = BOUNDS[tier]['lattice_n']
    X0 = lattice(kind, n)
    nq = X0.shape[1]
    # stencil: [X0] + for each direction d and shift k in -3..3 (k != 0): X0 + k h e_d
    shifts = [(None, 0)] + [(d, k) for d in range(dim) for k in (-3, -2, -1, 1, 2, 3)]
    Xall = np.hstack([X0 + (0 if d is None else k * H * np.eye(dim)[:, [d]]) for d, k in shifts])
    sig0 = f"C09|{name}|"
    geolab = f"{geom or 'refcell'}:{variant}"
    case0 = {'element': name, 'geometry': geolab}
    try:
        invDF = mapping.invDF(X0)               # (dim, dim, nt, nq)
        detDF = mapping.detDF(X0)
    except Exception as e:
        out.harness_error(f"mapping failed on {geolab}: {e!r}")
        return out
    nt = m.t.shape[1]
    try:
        Nbfun = len(elem.doflocs) if hasattr(elem, 'doflocs') and elem.doflocs is not None else None
    except Exception:
        Nbfun = None
    from skfem.assembly import Dofs
    Nbfun = Dofs(m, elem).element_dofs.shape[0]
    skeleton = 'Skeleton' in name
    sumval = None
    per_cell_checked = False
    for i in range(Nbfun):
        try:
            with warnings.catch_warnings():
                warnings.simplefilter('ignore')
                gb = elem.gbasis(mapping, Xall, i)
        except Exception as e:
            out.violation(sig0 + 'gbasis-exception', f"gbasis raised {e!r} for local index {i} on {geolab}", case=case0)
            return out
        # "at every point": the field delivered at a point does not depend on which other points accompany it.
        # The same element object is asked again block by block (equal-shaped point arrays that differ in one
        # coordinate only - the situation of every finite-difference or facet evaluation) and must reproduce
        # the corresponding slice of the one-call evaluation.
        try:
            for s in (range(len(shifts)) if tier == 'thorough' else sorted({0, 1, 2, len(shifts) - 2, len(shifts) - 1})):
                with warnings.catch_warnings():
                    warnings.simplefilter('ignore')
                    gbs = elem.gbasis(mapping, np.ascontiguousarray(Xall[:, s * nq:(s + 1) * nq]), i)
                for comp, (df1, df2) in enumerate(zip(gb, gbs)):
                    f1, f2 = fields_of(df1), fields_of(df2)
                    for k in f1:
                        a = np.broadcast_to(f1[k], f1[k].shape[:-2] + (nt, Xall.shape[1]))[..., s * nq:(s + 1) * nq]
                        b = np.broadcast_to(f2[k], a.shape)
                        out.ev()
                        if not np.allclose(a, b, rtol=1e-11, atol=1e-11 * (1 + np.abs(a).max())):
                            out.violation(sig0 + 'pointset-dependent',
                                          f"field {k} of local function {i} at the stencil block {shifts[s]} differs by "
                                          f"{np.abs(a - b).max():.3e} between one call with all points and a call with this "
                                          f"block alone (same element object) on {geolab}", case=dict(case0, local=i, field=k))
                            raise StopIteration
        except StopIteration:
            pass
        for comp, df in enumerate(gb):
            F = fields_of(df)
            val = F['value']                     # (..., nt, nq_all)
            if val.shape[-2:] != (nt, Xall.shape[1]):
                val = np.broadcast_to(val, val.shape[:-2] + (nt, Xall.shape[1]))

            def at0(a):
                return a[..., :nq]

            def dref(a):
                """FD derivative w.r.t. reference coordinates: returns array (..., dim, nt, nq)."""
                a = np.broadcast_to(a, a.shape[:-2] + (nt, Xall.shape[1]))
                res = []
                for d in range(dim):
                    acc = 0
                    for s, (dd, k) in enumerate(shifts):
                        if dd == d:
                            acc = acc + FD[k + 3] * a[..., s * nq:(s + 1) * nq]
                    res.append(acc)
                return np.stack(res, axis=-3)

            def dphys(a):
                """physical gradient: last new axis j = d/dx_j, placed right after the tensor axes."""
                dr = dref(a)                    # (..., k, nt, nq)
                return np.einsum('...kcq,kjcq->...jcq', dr, invDF)

            def cmp(fieldname, got, exp, i=i, comp=comp):
                got = np.broadcast_to(got, exp.shape) if got.shape != exp.shape else got
                scale = 1 + np.abs(exp).max()
                err = np.abs(got - exp).max()
                out.ev()
                if np.abs(exp).max() > 1e-9:
                    out.nt((name, geolab, i, comp, fieldname))
                if not np.isfinite(err) or err > 2e-7 * scale:
                    c = int(np.unravel_index(np.nanargmax(np.abs(got - exp)), exp.shape)[-2]) if np.isfinite(err) else -1
                    out.violation(sig0 + f"{fieldname}-not-derivative",
                                  f"delivered {fieldname} of local function {i} (component {comp}) differs from the "
                                  f"derivative of the delivered lower field by {err:.3e} (scale {scale:.3e}) on {geolab}, cell {c}",
                                  case=dict(case0, local=i, field=fieldname))
            if skeleton:
                out.count('skeleton_derivatives_not_claimed')
            else:
                if 'grad' in F:
                    cmp('grad', at0(F['grad']), dphys(val))
                if 'div' in F:
                    g = dphys(val)              # (i, j, nt, nq) for vector value
                    if g.ndim == 4:
                        cmp('div', at0(F['div']), np.einsum('iicq->cq', g))
                    elif g.ndim == 5:           # matrix valued: row-wise divergence
                        cmp('div', at0(F['div']), np.einsum('ijjcq->icq', g))
                if 'curl' in F:
                    g = dphys(val)
                    if g.ndim == 4 and dim == 2:
                        cmp('curl', at0(F['curl']), g[1, 0] - g[0, 1])
                    elif g.ndim == 4 and dim == 3:
                        cmp('curl', at0(F['curl']), np.stack([g[2, 1] - g[1, 2], g[0, 2] - g[2, 0], g[1, 0] - g[0, 1]]))
                    elif g.ndim == 3 and dim == 2:   # scalar in 2-D: rot u = (u_y, -u_x)
                        cmp('curl', at0(F['curl']), np.stack([g[1], -g[0]]))
                prev = 'grad'
                for nme in ('hess', 'grad3', 'grad4', 'grad5', 'grad6'):
                    if nme in F and prev in F:
                        cmp(nme, at0(F[nme]), dphys(F[prev]))
                    prev = nme
            v0 = at0(val)
            if comp == 0 and v0.ndim == 2:
                sumval = v0.copy() if sumval is None else sumval + v0
            out.outcome((name, i, tuple(sorted(F))))
        # both point layouts must agree (per-cell layout = the same points repeated for each cell)
        if not per_cell_checked and i in (0, Nbfun - 1):
            try:
                Xc = np.repeat(X0[:, None, :], nt, axis=1)
                with warnings.catch_warnings():
                    warnings.simplefilter('ignore')
                    gb2 = elem.gbasis(mapping, Xc, i, tind=np.arange(nt, dtype=np.int32))
                for df1, df2 in zip(gb, gb2):
                    f1, f2 = fields_of(df1), fields_of(df2)
                    for k in f1:
                        a = np.broadcast_to(f1[k], f1[k].shape[:-2] + (nt, Xall.shape[1]))[..., :nq]
                        b = np.broadcast_to(f2[k], a.shape)
                        out.ev()
                        if np.abs(a - b).max() > 1e-11 * (1 + np.abs(a).max()):
                            out.violation(sig0 + 'layouts-disagree', f"field {k} of local function {i} differs between the "
                                          f"shared and the per-cell point layout on {geolab}", case=dict(case0, local=i))
            except Exception as e:
                out.count('per_cell_layout_unsupported:' + name)
    # partition of unity / nodality (value-type functions)
    if ent.pou and sumval is not None:
        out.ev()
        if np.abs(sumval - 1).max() > 1e-11:
            out.violation(sig0 + 'partition-of-unity', f"sum of shape functions deviates from 1 by {np.abs(sumval - 1).max():.2e} "
                          f"on {geolab}", case=case0)
        else:
            out.nt((name, geolab, 'pou'))
    if ent.nodal and variant == 'reference':
        dl = np.asarray(elem.doflocs, dtype=float)
        ok = ~np.isnan(dl).any(axis=1)
        Mx = np.zeros((Nbfun, Nbfun))
        for i in range(Nbfun):
            Mx[i] = np.asarray(elem.lbasis(dl.T.copy(), i)[0])
        Mx = Mx[np.ix_(ok, ok)] if not ok.all() else Mx
        out.ev()
        if np.abs(Mx - np.eye(Mx.shape[0])).max() > 1e-12:
            bad = np.unravel_index(np.abs(Mx - np.eye(Mx.shape[0])).argmax(), Mx.shape)
            out.violation(sig0 + 'not-nodal', f"phi_{bad[0]}(x_{bad[1]}) = {Mx[bad]:.6g}", case=case0)
        else:
            out.nt((name, 'nodal'))
    duality(ent, elem, m, mapping, geolab, out, sig0, case0)
    if item[1] in (None,) and name in ('ElementTriP2', 'ElementTetN1', 'ElementQuadP(3)', 'ElementTriArgyris'):
        out.sample({'element': name, 'geometry': geolab, 'local_functions': Nbfun, 'lattice_points': int(nq),
                    'stencil_points': int(Xall.shape[1])}, 1)
    return out


# ---------------------------------------------------------------------------------------
# duality of the defining functionals
# ---------------------------------------------------------------------------------------

LOWEST_HDIV = {'ElementTriRT0', 'ElementTriRT1', 'ElementQuadRT0', 'ElementQuadRT1', 'ElementTetRT0', 'ElementTetRT1',
               'ElementHexRT1'}
LOWEST_HCURL = {'ElementTriN1', 'ElementQuadN1', 'ElementTetN0', 'ElementTetN1'}


def gauss_on_facet(kind, k):
    """Reference points of local facet k with weights (exact for degree 3) and the facet's
    vertices (reference coordinates)."""
    from skfem import refdom as rd
    R = {'tri': rd.RefTri, 'quad': rd.RefQuad, 'tet': rd.RefTet, 'hex': rd.RefHex}[kind]
    P = R.p[:, R.facets[k]]                     # (dim, nverts)
    g = np.array([.5 - .5 / np.sqrt(3), .5 + .5 / np.sqrt(3)])
    if P.shape[1] == 2:
        X = P[:, [0]] + (P[:, [1]] - P[:, [0]]) * g[None, :]
        W = np.array([.5, .5]) * np.linalg.norm(P[:, 1] - P[:, 0])
    elif P.shape[1] == 3:
        bar = np.array([[2 / 3, 1 / 6, 1 / 6], [1 / 6, 2 / 3, 1 / 6], [1 / 6, 1 / 6, 2 / 3]])
        X = P @ bar.T
        W = np.ones(3) / 3 * .5 * np.linalg.norm(np.cross(P[:, 1] - P[:, 0], P[:, 2] - P[:, 0]))
    else:
        a, b = np.meshgrid(g, g)
        a, b = a.flatten(), b.flatten()
        X = (P[:, [0]] * (1 - a) * (1 - b) + P[:, [1]] * a * (1 - b) + P[:, [2]] * a * b + P[:, [3]] * (1 - a) * b)
        W = np.ones(4) / 4 * np.linalg.norm(np.cross(P[:, 1] - P[:, 0], P[:, 3] - P[:, 0]))
    return X, W, P


def duality(ent, elem, m, mapping, geolab, out, sig0, case0):
    from skfem import refdom as rd
    name = ent.name
    kind = ent.kind
    dim = REF[kind]['dim']
    if name in LOWEST_HDIV and geolab.startswith('refcell'):
        R = {'tri': rd.RefTri, 'quad': rd.RefQuad, 'tet': rd.RefTet, 'hex': rd.RefHex}[kind]
        nf = len(R.facets)
        Mx = np.zeros((nf, nf))
        for j in range(nf):
            X, W, P = gauss_on_facet(kind, j)
            nrm = R.normals[j] / np.linalg.norm(R.normals[j])
            for i in range(nf):
                phi = np.asarray(elem.lbasis(X, i)[0])          # (dim, nq)
                Mx[i, j] = (W * (nrm @ phi)).sum()
        out.ev()
        c = Mx[0, 0]
        out.outcome((name, 'flux-normalisation', round(float(c), 12)))
        # dual up to one common positive normalisation (reference simplices in 3-D use flux 1/2)
        if not (c > 1e-3) or np.abs(Mx - c * np.eye(nf)).max() > 1e-12:
            out.violation(sig0 + 'facet-flux-duality', f"facet fluxes of the reference basis are not dual: {np.round(Mx, 6).tolist()}",
                          case=case0)
        else:
            out.nt((name, 'flux-duality'))
    if name in LOWEST_HCURL and geolab.startswith('refcell'):
        R = {'tri': rd.RefTri, 'quad': rd.RefQuad, 'tet': rd.RefTet}[kind]
        ents = R.facets if dim == 2 else R.edges
        ne = len(ents)
        g = np.array([.5 - .5 / np.sqrt(3), .5 + .5 / np.sqrt(3)])
        Mx = np.zeros((ne, ne))
        for j, (a, b) in enumerate(ents):
            A, B = R.p[:, a], R.p[:, b]
            X = A[:, None] + (B - A)[:, None] * g[None, :]
            tvec = (B - A)
            for i in range(ne):
                phi = np.asarray(elem.lbasis(X, i)[0])
                Mx[i, j] = (.5 * (tvec @ phi)).sum()
        out.ev()
        c = Mx[0, 0]
        out.outcome((name, 'circulation-normalisation', round(float(c), 12)))
        if not (abs(c) > 1e-3) or np.abs(np.abs(Mx) - abs(c) * np.eye(ne)).max() > 1e-12:
            out.violation(sig0 + 'edge-circulation-duality', f"edge circulations of the reference basis are not dual: "
                          f"{np.round(Mx, 6).tolist()}", case=case0)
        else:
            out.nt((name, 'circulation-duality'))
    # global elements: functionals named by dofnames at the (mapped) DOF locations
    import skfem.element as E
    if isinstance(elem, E.ElementGlobal) and not geolab.startswith('refcell'):
        dl = np.asarray(elem.doflocs, dtype=float)
        names = list(elem.dofnames)
        ref = REF[kind]
        nn = ref['nn']
        # dofname per local index
        per = []
        off = 0
        for v in range(nn):
            per += names[off:off + elem.nodal_dofs]
        off += elem.nodal_dofs
        nfac = len(ref['facets']) if dim >= 2 else 0
        fnames = names[off:off + elem.facet_dofs]
        for f in range(nfac if elem.facet_dofs else 0):
            per += fnames
        off += elem.facet_dofs
        per += names[off:off + elem.interior_dofs]
        N = len(per)
        if N != dl.shape[0]:
            out.count('global_duality_skipped_layout:' + name)
            return
        fresh = ent.make()
        X = dl.T.copy()
        D = np.zeros((N, N))
        nt = m.t.shape[1]
        cell = nt - 1
        for i in range(N):
            with warnings.catch_warnings():
                warnings.simplefilter('ignore')
                df = fresh.gbasis(mapping, X, i)[0]
            F = fields_of(df)
            for j in range(N):
                nm = per[j]
                if nm == 'u':
                    D[i, j] = F['value'][cell, j]
                elif nm in ('u_x', 'u_y', 'u_z'):
                    D[i, j] = F['grad']['xyz'.index(nm[2])][cell, j]
                elif nm in ('u_xx', 'u_xy', 'u_yy', 'u_xz', 'u_yz', 'u_zz'):
                    a, b = 'xyz'.index(nm[2]), 'xyz'.index(nm[3])
                    D[i, j] = F['hess'][a, b][cell, j]
                elif nm == 'u_xyz':
                    D[i, j] = F['grad3'][0, 1, 2][cell, j]
                elif nm == 'u_n':
                    # normal derivative at the facet midpoint; sign convention is global: compare magnitudes
                    f = (j - elem.nodal_dofs * nn) // elem.facet_dofs
                    vs = [m.p[:, m.t[k, cell]] for k in ref['facets'][f]]
                    tv = vs[1] - vs[0]
                    nv = np.array([tv[1], -tv[0]]) / np.linalg.norm(tv)
                    D[i, j] = abs(nv @ F['grad'][:, cell, j]) if i == j else nv @ F['grad'][:, cell, j]
                else:
                    D[i, j] = np.nan
        known = ~np.isnan(D).any(axis=0)
        Dk = D[np.ix_(known, known)]
        out.ev()
        scale = 1 + np.abs(Dk).max()
        if np.abs(Dk - np.eye(Dk.shape[0])).max() > 1e-7 * scale:
            bad = np.unravel_index(np.abs(Dk - np.eye(Dk.shape[0])).argmax(), Dk.shape)
            out.violation(sig0 + 'global-functional-duality', f"functional {bad[1]} ('{np.array(per)[known][bad[1]]}') applied to "
                          f"basis function {bad[0]} gives {Dk[bad]:.6g} on {geolab}", case=case0)
        else:
            out.nt((name, geolab, 'global-duality'))
