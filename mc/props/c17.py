"""C17 - saving and loading a mesh round-trips geometry, connectivity and tags.

Mesh states x saturated tags (incl. interior facets and EVERY orientation-flag vector on the
oriented interior facets) x every supported format / variant x user point and cell data.
"""
from __future__ import annotations

import itertools
import os
import tempfile
import warnings

import numpy as np

from ..report import Out
from .. import meshspace as ms
from .. import meshops as mo
from ..topo import REF, KIND_OF_CLASS, Topo
from . import c10

ID = 'C17'
# sub-checks added after the seeded-change waves (DESIGN.md sections 5 and 6)
EXTENSIONS = [
    'repeated facet in a tag and facet tagged from both sides (multiset of (facet, owner) pairs)',
]
LEVEL = 'exploration'
TECHNIQUE = "small-scope exhaustive enumeration (mesh states x tag sets x all orientation-flag vectors x formats) with a geometric round-trip oracle"
LEVEL_TEXT = ("For every first- and second-order triangle / quadrilateral / tetrahedron / hexahedron seed (plain, renumbered, cell "
              "order swapped, locally reordered, straight and curved second order) the mesh carries saturated tags: every cell "
              "subset (<= 4 cells; bounded family beyond), single facets, facet pairs, boundary and interior sets, the empty set, "
              "and for up to 4 interior facets EVERY orientation-flag vector (2^k oriented tags) plus mixed boundary/interior "
              "oriented sets. Each is pushed through every format: in-memory to_meshio/from_meshio, gmsh 4.1, gmsh 2.2, vtk, vtu "
              "files, npz, dict and json (first order), with user point and cell data. Oracle: same class, identical coordinate "
              "and connectivity arrays, same tag names, tag sets equal as sets of geometric entities, orientation equal as 'which "
              "neighbouring cell owns the facet', user data identical, source mesh digest unchanged by the export.")
LEVEL_NOTE = ("meshio's readers/writers are exercised, not verified; files are written to a temporary directory that is removed per "
              "case; orientation flag 1 is only used on interior facets (it has no meaning on a facet with one neighbour).")
RULE = ("case = (mesh state, format); every case checks all tags at once. non-trivial = distinct case whose mesh has >= 1 interior "
        "facet carrying both orientations in different tags and >= 1 proper cell subset tag.")
ASSUMPTIONS = ["tag names are alphanumeric with underscores", "orientation is compared through the owning cell"]
BOUNDS = {'quick': {'oriented_interior_facets': 3, 'states': 'seed: plain, vswap, cswap, lorder, order2-straight, order2-curved'},
          'thorough': {'oriented_interior_facets': 4, 'states': 'quick + all depth-1 raw deviations on <= 3-cell seeds'}}
ITEM_TIMEOUT = {'quick': 900, 'thorough': 3600}
SEEDS = ['T2', 'Tfan4', 'TL6', 'Q2', 'Q4gen', 'Qring8', 'K2', 'K3e', 'K5', 'H2', 'H4']
FORMATS = ['meshio-memory', 'gmsh41', 'gmsh22', 'vtk', 'vtu', 'npz', 'dict', 'json']


def state_labels(name, seed, tier):
    st0 = ms.seeds(seed)[name]
    labs = []
    for l, _ in c10.variants(name, seed, 'quick' if tier == 'quick' or st0.nt > 3 else 'thorough'):
        if l != 'mirrored':
            labs.append(l)
    return labs


def items(tier, seed):
    its = []
    for n in SEEDS:
        for lab in state_labels(n, seed, tier):
            for f in FORMATS:
                if lab.startswith('order2') and f in ('dict', 'json'):
                    continue
                its.append((n, lab, f))
    return its


def cost(item):
    return {'H2': 3, 'K3e': 2}.get(item[0], 1)


def tagged(m, kind, kmax):
    from skfem.generic_utils import OrientedBoundary
    subs, bnds = mo.saturate(m, sub_full_upto=4, facet_full_upto=0)
    nf = m.facets.shape[1]
    intf = [int(j) for j in range(nf) if m.f2t[1, j] != -1][:kmax]
    bf = [int(j) for j in m.boundary_facets()]
    for bits in itertools.product((0, 1), repeat=len(intf)):
        if intf:
            bnds['o_' + ''.join(map(str, bits))] = OrientedBoundary(np.array(intf, dtype=np.int32), np.array(bits, dtype=np.int32))
    if intf and bf:
        # mixed: boundary facets (flag 0) and interior facets with alternating flags, listed unsorted
        if len(intf) >= 2:
            fac = np.array([bf[0], intf[-1], bf[-1], intf[0]], dtype=np.int32)
            ori = np.array([0, 1, 0, 0], dtype=np.int32)
        else:
            fac = np.array([bf[-1], intf[0], bf[0]], dtype=np.int32)
            ori = np.array([0, 1, 0], dtype=np.int32)
        bnds['omixed'] = OrientedBoundary(fac, ori)
        if len(intf) >= 2:
            bnds['omixed2'] = OrientedBoundary(np.array([intf[1], bf[0], intf[0]], dtype=np.int32), np.array([1, 0, 1]))
        # an interior facet tagged from BOTH sides (e.g. the union of the facets around two adjacent subdomains)
        bnds['oboth'] = OrientedBoundary(np.array([intf[0], bf[0], intf[0]], dtype=np.int32), np.array([1, 0, 0], dtype=np.int32))
    if len(bf) >= 2:
        # the same set named with a repeated index (e.g. the concatenation of two overlapping selections)
        bnds['brep'] = np.array([bf[0], bf[-1], bf[0]], dtype=np.int32)
    return m.with_subdomains(subs).with_boundaries(bnds)


def digest(m):
    return (m.p.tobytes(), m.t.tobytes(), repr(mo.tag_sets(m.subdomains)), repr(mo.tag_sets(m.boundaries)),
            repr({k: None if getattr(v, 'ori', None) is None else np.asarray(v.ori).tolist() for k, v in m.boundaries.items()}))


def owners(m, tag):
    """list of (facet, owning cell) pairs (orientation as the property states it); a facet tagged from both sides
    appears with both owners."""
    fac = np.asarray(tag).astype(int)
    ori = getattr(tag, 'ori', None)
    ori = np.zeros(len(fac), dtype=int) if ori is None else np.asarray(ori).astype(int)
    return [(int(f), int(m.f2t[o, f])) for f, o in zip(fac, ori)]


def roundtrip(m, fmt, tmp, pdata, cdata):
    from skfem.io.meshio import to_meshio, from_meshio
    from skfem import Mesh
    cls = type(m)
    out = [None, None]
    if fmt == 'meshio-memory':
        M = from_meshio(to_meshio(m, point_data={'pd': pdata.copy()}, cell_data={'cd': [cdata.copy()]}))
        return M, None
    if fmt in ('gmsh41', 'gmsh22', 'vtk', 'vtu'):
        ext = {'gmsh41': '.msh', 'gmsh22': '.msh', 'vtk': '.vtk', 'vtu': '.vtu'}[fmt]
        path = os.path.join(tmp, 'mesh' + ext)
        kw = {'file_format': 'gmsh22'} if fmt == 'gmsh22' else {}
        m.save(path, point_data={'pd': pdata.copy()}, cell_data={'cd': [cdata.copy()]}, **kw)
        o = ['point_data', 'cell_data']
        M = Mesh.load(path, out=o)
        return M, o
    if fmt == 'npz':
        path = os.path.join(tmp, 'mesh.npz')
        m.save_npz(path)
        return cls.load_npz(path), None
    if fmt == 'dict':
        return cls.from_dict(m.to_dict()), None
    if fmt == 'json':
        from skfem.io.json import to_file, from_file
        path = os.path.join(tmp, 'mesh.json')
        to_file(m, path)
        return from_file(path), None
    raise KeyError(fmt)


def work(item, tier, seed):
    name, lab, fmt = item
    out = Out()
    out.set_item(item)
    warnings.simplefilter('ignore')
    m0 = c10.get_mesh(name, lab, seed, 'quick' if tier == 'quick' or ms.seeds(seed)[name].nt > 3 else 'thorough')
    cls = type(m0).__name__
    kind = KIND_OF_CLASS[cls]
    m = tagged(m0, kind, BOUNDS[tier]['oriented_interior_facets'])
    sig0 = f"C17|{fmt}|{cls}|"
    case0 = {'seed': name, 'variant': lab, 'format': fmt}
    out.ev()

    def bad(what, msg):
        out.violation(sig0 + what, f"{msg} [seed {name}, variant {lab}, format {fmt}]", case=case0)
    pdata = 1.5 + np.arange(m.p.shape[1]) * .25
    cdata = 10. + np.arange(m.t.shape[1]) * .5
    dig = digest(m)
    tmp = tempfile.mkdtemp(prefix='c17_', dir='/dev/shm' if os.path.isdir('/dev/shm') else None)
    try:
        import contextlib
        import io
        with mo.LogCapture() as lc, contextlib.redirect_stdout(io.StringIO()), contextlib.redirect_stderr(io.StringIO()):
            M, o = roundtrip(m, fmt, tmp, pdata, cdata)
    except Exception as e:
        bad('exception', repr(e))
        return out
    finally:
        import shutil
        shutil.rmtree(tmp, ignore_errors=True)
    if digest(m) != dig:
        bad('export-mutates-mesh', "the exported mesh changed")
    if type(M) is not type(m):
        bad('class', f"loaded as {type(M).__name__}")
        return out
    if M.p.shape != m.p.shape or not np.array_equal(M.p, m.p):
        bad('coordinates', f"coordinates differ (shape {M.p.shape} vs {m.p.shape}, max diff "
            f"{np.abs(M.p - m.p).max() if M.p.shape == m.p.shape else 'n/a'})")
        return out
    if M.t.shape != m.t.shape or not np.array_equal(M.t, m.t):
        bad('connectivity', "connectivity differs")
        return out
    # subdomains
    s0, s1 = mo.tag_sets(m.subdomains), mo.tag_sets(M.subdomains) or {}
    if set(s0) != set(s1):
        bad('subdomain-names', f"subdomain names lost {sorted(set(s0) - set(s1))[:4]} invented {sorted(set(s1) - set(s0))[:4]}")
    else:
        for k in s0:
            if s0[k] != s1[k]:
                bad('subdomains', f"subdomain '{k}' {sorted(s0[k])} came back as {sorted(s1[k])}")
                break
    b0, b1 = m.boundaries, M.boundaries or {}
    if set(b0) != set(b1):
        bad('boundary-names', f"boundary names lost {sorted(set(b0) - set(b1))[:4]} invented {sorted(set(b1) - set(b0))[:4]}")
    else:
        for k in sorted(b0):
            f0 = set(int(j) for j in np.asarray(b0[k]))
            f1 = set(int(j) for j in np.asarray(b1[k]))
            if f0 != f1:
                bad('boundaries', f"boundary '{k}' facets {sorted(f0)} came back as {sorted(f1)}")
                break
            o0, o1 = owners(m, b0[k]), owners(M, b1[k])
            import collections as _c
            c0, c1 = _c.Counter(o0), _c.Counter(o1)
            if any(c1[q] > max(c0[q], 1) for q in c1):
                bad('boundary-duplicates', f"boundary '{k}' came back with a (facet, owner) pair repeated more often than it was given")
                break
            if set(o0) != set(o1):
                d = sorted(set(o0) ^ set(o1))[0]
                bad('orientation', f"oriented boundary '{k}': (facet, owning cell) pairs {sorted(set(o0))} come back as "
                    f"{sorted(set(o1))} (first difference: facet {d[0]}, cells {m.f2t[:, d[0]].tolist()})")
                break
    if o is not None:
        try:
            pd, cd = o
            if 'pd' not in pd or not np.array_equal(np.asarray(pd['pd']).flatten(), pdata):
                bad('point-data', "user point data differ after the round trip")
            got = cd.get('cd') if hasattr(cd, 'get') else None
            if got is None or not np.array_equal(np.concatenate([np.asarray(a).flatten() for a in got])[:len(cdata)], cdata):
                bad('cell-data', "user cell data differ after the round trip")
        except Exception as e:
            bad('data-exception', repr(e))
    nint = int((m.f2t[1] != -1).sum())
    if nint >= 1 and m.t.shape[1] >= 2:
        out.nt((name, lab, fmt))
    out.outcome((cls, fmt, len(b0), len(s0)))
    if lab == 'plain':
        out.sample({'seed': name, 'variant': lab, 'format': fmt, 'class': cls, 'subdomain_tags': len(s0),
                    'boundary_tags': len(b0), 'oriented_tags': sum(1 for k in b0 if k.startswith('o'))}, 1)
    return out
