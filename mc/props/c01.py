"""C01 - assembled matrix / vector / scalar represent the weak form.

Three independent routes must agree entrywise for every (mesh state, trial, test, basis kind,
integrand): (1) Form.assemble; (2) an explicit dense scatter of sum_q integrand * dx built
from basis.basis / element_dofs / dx with rows = test DOFs, columns = trial DOFs; (3) the
Functional of the same integrand evaluated on interpolate(e_j), interpolate(e_i) for ALL unit
vector pairs (bilinearity decides all u, v).
"""
from __future__ import annotations

import itertools
import warnings

import numpy as np

from ..report import Out
from .. import meshspace as ms
from .. import catalogue as cat
from ..topo import REF, KIND_OF_CLASS
from . import c10

ID = 'C01'
# sub-checks added after the seeded-change waves (DESIGN.md sections 5 and 6)
EXTENSIONS = [
    'independent reconstruction of the basis object; user parameters overriding defaults; relative-only tolerances on tiny / huge geometry scales',
    'coefficient vectors of float32 / integer / complex64 dtype; vector- and tensor-valued functionals; functionals built without dtype; nthreads in {1, 2, 3}',
    'cell / facet subsets named as int64 array or list; omitted arguments equal the documented defaults given explicitly',
]
LEVEL = 'exploration'
TECHNIQUE = "small-scope exhaustive enumeration (mesh x trial/test pair x basis kind x integrand grammar) with a three-route differential oracle over all unit vectors"
LEVEL_TEXT = ("For small irregular meshes of every class (plain, renumbered, mirrored, curved second order) the check enumerates "
              "ordered (trial, test) pairs of elements with DIFFERENT local sizes drawn from every family (Lagrange, bubble, DG, "
              "vector, composite, H(div), H(curl), matrix-valued, global C1 / non-conforming) plus every catalogue element paired "
              "with itself, every basis kind (all cells, every proper cell subset on <= 3-cell meshes, boundary facets, single facets "
              "and a facet pair, interior facets side 0 / side 1 / trial side 0 with test side 1) and an integrand grammar "
              "D1(u) * D2(v) * c (D in value / partial derivative / div / curl / Hessian entry as the element allows; c in 1, x0, "
              "x0*x1, h, n_k, a coefficient given as DOF vector, as pre-interpolated field, as raw array, as scalar; real and "
              "complex). Oracle: library assembly == explicit dense scatter (rows test, cols trial) == Functional on "
              "interpolate(e_j), interpolate(e_i) for all unit vector pairs; likewise LinearForm, Functional, TrilinearForm and "
              "elemental(); nthreads 2 and 3 equal serial.")
LEVEL_NOTE = ("Route (2) re-uses the library's basis arrays, dx and default parameters (x is re-derived from the mapping), so it "
              "checks the index bookkeeping, not the basis values (those are C09/C10); route (3) goes through interpolate and "
              "Functional, which are independent code paths. Tolerance 1e-11 * sum|terms|.")
RULE = ("case = (mesh state, trial, test, basis kind, integrand, dtype). non-trivial = distinct case whose reference matrix has "
        "at least two distinct non-zero entries and is not symmetric (or is rectangular).")
ASSUMPTIONS = ["parameter names avoid the positional parameter names of the assembly methods (v, ubasis, vbasis)",
               "prisms: cell bases only (no boundary reference cell)"]
BOUNDS = {'quick': {'states_per_kind': 'small seed: plain, vswap, mirrored, order2-curved', 'route3_max_pairs': 600},
          'thorough': {'states_per_kind': 'two seeds x (plain, 2 raw variants, mirrored, order2-straight, order2-curved)',
                       'route3_max_pairs': 2500}}
ITEM_TIMEOUT = {'quick': 900, 'thorough': 7200}
SEEDS = {'line': ['L3'], 'tri': ['T2', 'Tfan4'], 'quad': ['Q2'], 'tet': ['K2'], 'hex': ['H2'], 'wedge': ['W2']}
REP = {
    'line': ['ElementLineP1', 'ElementLineP2', 'ElementLineP0', 'ElementLineMini', 'ElementLineHermite', 'ElementLinePp(3)',
             'ElementDG(LineP2)'],
    'tri': ['ElementTriP1', 'ElementTriP2', 'ElementTriP0', 'ElementTriMini', 'ElementTriRT1', 'ElementTriN1', 'ElementTriHHJ0',
            'ElementTriMorley', 'ElementVector(TriP1)', 'ElementDG(TriP2)', 'ElementTriCR', 'ElementTriBDM1', 'ElementTriN2',
            'ElementTriP3'],
    'quad': ['ElementQuad1', 'ElementQuad2', 'ElementQuad0', 'ElementQuadS2', 'ElementQuadRT1', 'ElementQuadN1',
             'ElementQuadP(3)', 'ElementVector(Quad2)'],
    'tet': ['ElementTetP1', 'ElementTetP2', 'ElementTetP0', 'ElementTetMini', 'ElementTetRT1', 'ElementTetN1', 'ElementTetCR',
            'ElementVector(TetP2)'],
    'hex': ['ElementHex1', 'ElementHex0', 'ElementHexS2', 'ElementHexRT1', 'ElementVector(Hex1)'],
    'wedge': ['ElementWedge1'],
}
COMPOSITES = {'tri': ['Composite(TriP2*TriP1)', 'Composite(TriRT1*TriP0)', 'Composite(Vector(TriP2)*TriP1)'],
              'tet': ['Composite(TetP2*TetP1)'], 'quad': ['Composite(Quad2*Quad1)'], 'line': ['Composite(LineP2*LineP0)'],
              'hex': [], 'wedge': []}


def state_labels(kind, tier):
    labs = ['plain', 'mirrored']
    if kind in ('tri', 'quad', 'tet', 'hex'):
        labs.append('order2-curved')
        if tier == 'thorough':
            labs.append('order2-straight')
    return labs


def items(tier, seed):
    its = []
    for kind, names in SEEDS.items():
        names = names if tier == 'thorough' else names[:1]
        rep = REP[kind]
        pairs = []
        n = len(rep)
        for k in range(n):
            if n > 1:
                pairs.append((rep[k], rep[(k + 1) % n]))
                pairs.append((rep[(k + 2) % n], rep[k]))
        allself = [e.name for e in cat.entries(kind, wrappers=True) if e.family != 'unclassified' and e.kind == kind]
        for sname in names:
            for lab in state_labels(kind, tier):
                for (a, b) in pairs:
                    its.append((sname, lab, a, b, 'pair'))
            for a in allself:
                its.append((sname, 'plain', a, a, 'self'))
                if tier == 'thorough':
                    its.append((sname, 'mirrored', a, a, 'self'))
        # one renumbered state for a few pairs
        for (a, b) in pairs[:4]:
            its.append((names[0], 'raw', a, b, 'pair'))
        # micro- and mega-scale geometry (exact dyadic scalings): magnitudes of entries span 1e-40 .. 1e+20
        for (a, b) in pairs[:3]:
            its.append((names[0], 'scaled-tiny', a, b, 'pair'))
            its.append((names[0], 'scaled-huge', a, b, 'pair'))
    return its


def cost(item):
    s, lab, a, b, mode = item
    w = {'H2': 8, 'K2': 4, 'Tfan4': 2}.get(s, 1)
    h = sum(4 for e in (a, b) if any(x in e for x in ('Argyris', 'HexC1', 'BFS', '15Param', 'Morley', 'Hermite', '2G', '1G', 'Hex2')))
    return w * (1 + h) * (3 if mode == 'pair' else 1)


def get_mesh(sname, lab, seed):
    if lab == 'raw':
        st0 = ms.seeds(seed)[sname]
        raws = list(ms.raw_transitions(st0, cell_swaps=True))
        # a vertex swap followed (if any) by a cell swap: take first of each kind composed
        st = raws[0][1]
        for l, nx in ms.raw_transitions(st, vertex_swaps=False, local=False):
            st = nx
            break
        return st.build()
    if lab in ('scaled-tiny', 'scaled-huge'):
        m = ms.seeds(seed)[sname].build()
        f = 2.0 ** -22 if lab == 'scaled-tiny' else 2.0 ** 20
        return m.scaled(tuple([f] * m.p.shape[0]))
    return c10.get_mesh(sname, lab, seed, 'quick')


# ---------------------------------------------------------------------------------------
# integrand grammar
# ---------------------------------------------------------------------------------------

def field_ops(fld, dim):
    """Scalar-valued observations of one DiscreteField component: label -> f(field) -> (nt, nq)."""
    ops = []
    v = np.asarray(fld)
    if v.ndim == 2:
        ops.append(('val', lambda f: np.asarray(f)))
        if fld.grad is not None:
            for k in range(dim):
                ops.append((f'd{k}', lambda f, k=k: f.grad[k]))
        if fld.hess is not None and dim >= 2:
            ops.append(('h01', lambda f: f.hess[0, 1]))
            ops.append(('h11', lambda f: f.hess[1, 1]))
        elif fld.hess is not None:
            ops.append(('h00', lambda f: f.hess[0, 0]))
    elif v.ndim == 3:
        for k in range(v.shape[0]):
            ops.append((f'val{k}', lambda f, k=k: np.asarray(f)[k]))
        if fld.div is not None:
            ops.append(('div', lambda f: f.div))
        if fld.curl is not None:
            c = np.asarray(fld.curl)
            if c.ndim == 2:
                ops.append(('curl', lambda f: f.curl))
            else:
                ops.append(('curl0', lambda f: f.curl[0]))
                ops.append((f'curl{c.shape[0] - 1}', lambda f: f.curl[-1]))
        if fld.grad is not None:
            ops.append(('g01', lambda f: f.grad[0, min(1, dim - 1)]))
            ops.append(('g10', lambda f: f.grad[min(1, v.shape[0] - 1), 0]))
    elif v.ndim == 4:
        ops.append(('val00', lambda f: np.asarray(f)[0, 0]))
        ops.append(('val01', lambda f: np.asarray(f)[0, 1]))
        if fld.div is not None:
            ops.append(('div0', lambda f: f.div[0]))
    return ops


def coef_ops(facet):
    cs = [('1', lambda w: 1.0), ('x0', lambda w: w.x[0]), ('x0x1', lambda w: w.x[0] * w.x[-1] + 1.0), ('h', lambda w: w.h),
          ('f', lambda w: np.asarray(w['f'])), ('g', lambda w: np.asarray(w['g'])), ('s', lambda w: w['s'])]
    if facet:
        cs.append(('n0', lambda w: w.n[0] + 2.0))
        cs.append(('nlast', lambda w: w.n[-1] * w.x[0] + 1.0))
    return cs


# ---------------------------------------------------------------------------------------
# bases
# ---------------------------------------------------------------------------------------

def basis_kinds(m, kind, nt):
    """label -> (maker(elem) for trial, maker(elem) for test)."""
    from skfem import CellBasis, FacetBasis, InteriorFacetBasis
    io = 4
    out = [('cells', lambda e: CellBasis(m, e, intorder=io), None)]
    if nt >= 2:
        subsets = ([S for k in range(1, nt) for S in itertools.combinations(range(nt), k)] if nt <= 3
                   else [(nt - 1,), (0, nt - 1), tuple(range(1, nt))])
        for S in subsets:
            out.append((f'cells{list(S)}', lambda e, S=S: CellBasis(m, e, elements=np.array(S, dtype=np.int32), intorder=io), None))
    if kind == 'wedge':
        return out
    out.append(('boundary', lambda e: FacetBasis(m, e, intorder=io), None))
    nf = m.facets.shape[1]
    for j in (0, nf - 1, nf // 2):
        out.append((f'facet[{j}]', lambda e, j=j: FacetBasis(m, e, facets=np.array([j], dtype=np.int32), intorder=io), None))
    out.append((f'facets[0,{nf - 1}]', lambda e: FacetBasis(m, e, facets=np.array([0, nf - 1], dtype=np.int64), intorder=io), None))
    if (m.f2t[1] != -1).any():
        out.append(('interior-side0', lambda e: InteriorFacetBasis(m, e, side=0, intorder=io), None))
        out.append(('interior-side1', lambda e: InteriorFacetBasis(m, e, side=1, intorder=io), None))
        out.append(('interior-trial0-test1', lambda e: InteriorFacetBasis(m, e, side=0, intorder=io),
                    lambda e: InteriorFacetBasis(m, e, side=1, intorder=io)))
    return out


def work(item, tier, seed):
    sname, lab, an, bn, mode = item
    out = Out()
    out.set_item(item)
    warnings.simplefilter('ignore')
    m = get_mesh(sname, lab, seed)
    cls = type(m).__name__
    kind = KIND_OF_CLASS[cls]
    dim = REF[kind]['dim']
    nt = m.t.shape[1]
    ea, eb = cat.by_name(an), cat.by_name(bn)
    kinds = basis_kinds(m, kind, nt)
    if mode == 'self':
        kinds = [k for k in kinds if k[0] in ('cells', 'boundary', 'interior-trial0-test1', f'cells{[nt - 1]}')]
    if nt >= 2:
        naming_equivalence(out, m, kind, ea, sname, lab)
    nk = 0
    for blab, mk_u, mk_v in kinds:
        try:
            ub = mk_u(ea.make())
            vb = (mk_v or mk_u)(eb.make())
        except Exception as e:
            out.count(f'basis_unsupported:{an if True else bn}:{blab.split("[")[0]}')
            continue
        nk += 1
        for bb, ee, role in ((ub, ea, 'trial'), (vb, eb, 'test')):
            reconstruct_basis(out, m, kind, bb, ee, blab, role, sname, lab)
        run_case(out, m, sname, lab, kind, dim, an, bn, blab, ub, vb, mode, tier, nk)
    return out


def _basis_arrays(b):
    arrs = [np.asarray(b.dx), np.asarray(b.element_dofs)]
    for tup in b.basis:
        for f in tup:
            for a in f.astuple:
                if a is not None:
                    arrs.append(np.asarray(a))
    return arrs


def naming_equivalence(out, m, kind, ent, sname, lab):
    """The same cell / facet subset named in other index forms (int64 array, list of Python ints) gives the identical basis: integrated entities, numbering, values, dx."""
    from skfem import CellBasis, FacetBasis
    nt = m.t.shape[1]
    nf = m.facets.shape[1]
    sig0 = "C01|cells|basis-"
    for S in ((nt - 1,), (0, nt - 1)):
        try:
            ref = _basis_arrays(CellBasis(m, ent.make(), elements=np.array(S, dtype=np.int32), intorder=4))
        except Exception:
            return
        # (negative indices counted from the end are not a documented way of naming cells: not used)
        forms = [('int64', np.array(S, dtype=np.int64)), ('list', [int(c) for c in S])]
        for fl, sel in forms:
            out.ev()
            case = {'seed': sname, 'variant': lab, 'element': ent.name, 'cells': list(S), 'form': fl}
            try:
                got = _basis_arrays(CellBasis(m, ent.make(), elements=sel, intorder=4))
            except Exception as e:
                out.violation(sig0 + 'naming-exception', f"CellBasis(elements={sel!r}) raised {e!r} [{ent.name}, mesh {sname}:{lab}]", case=case)
                continue
            if len(got) != len(ref) or any(a.shape != b.shape or not np.allclose(a, b, rtol=1e-13, atol=1e-13 * (1 + np.abs(b).max(initial=0)))
                                           for a, b in zip(got, ref)):
                out.violation(sig0 + 'naming', f"CellBasis over cells {list(S)} named as {fl} ({sel!r}) differs from the same cells named "
                              f"as an int32 array [{ent.name}, mesh {sname}:{lab}]", case=case)
    if kind == 'wedge':
        return
    # omitted arguments mean: all cells / the boundary facets / side 0 / the element's default integration order
    try:
        from skfem import InteriorFacetBasis
        T_ = None
        pairs_ = [('CellBasis() vs elements=all', lambda: CellBasis(m, ent.make(), intorder=4),
                   lambda: CellBasis(m, ent.make(), elements=np.arange(nt, dtype=np.int32), intorder=4), True),
                  ('FacetBasis() vs facets=boundary_facets()', lambda: FacetBasis(m, ent.make(), intorder=4),
                   lambda: FacetBasis(m, ent.make(), facets=m.boundary_facets(), intorder=4), False)]
        if (m.f2t[1] != -1).any():
            pairs_.append(('InteriorFacetBasis() vs side=0', lambda: InteriorFacetBasis(m, ent.make(), intorder=4),
                           lambda: InteriorFacetBasis(m, ent.make(), intorder=4, side=0), False))
        for dl, f1, f2, skip_dofs in pairs_:
            out.ev()
            a1, a2 = _basis_arrays(f1()), _basis_arrays(f2())
            if len(a1) != len(a2) or any(x.shape != y.shape or not np.allclose(x, y, rtol=1e-13, atol=1e-13 * (1 + np.abs(y).max(initial=0)))
                                         for x, y in zip(a1, a2)):
                out.violation("C01|cells|basis-default-argument", f"{dl}: the basis built with the argument omitted differs from the one "
                              f"built with the documented default given explicitly [{ent.name}, mesh {sname}:{lab}]",
                              case={'seed': sname, 'variant': lab, 'element': ent.name, 'default': dl})
    except Exception as e:
        out.count(f'default_argument_equivalence_unsupported:{type(e).__name__}')
    for F in ((nf - 1,), (0, nf - 1)):
        try:
            ref = _basis_arrays(FacetBasis(m, ent.make(), facets=np.array(F, dtype=np.int32), intorder=4))
        except Exception:
            return
        for fl, sel in (('int64', np.array(F, dtype=np.int64)),):
            out.ev()
            case = {'seed': sname, 'variant': lab, 'element': ent.name, 'facets': list(F), 'form': fl}
            try:
                got = _basis_arrays(FacetBasis(m, ent.make(), facets=sel, intorder=4))
            except Exception as e:
                out.violation("C01|facet|basis-naming-exception", f"FacetBasis(facets={sel!r}) raised {e!r} [{ent.name}, mesh {sname}:{lab}]",
                              case=case)
                continue
            if len(got) != len(ref) or any(a.shape != b.shape or not np.allclose(a, b, rtol=1e-13, atol=1e-13 * (1 + np.abs(b).max(initial=0)))
                                           for a, b in zip(got, ref)):
                out.violation("C01|facet|basis-naming", f"FacetBasis over facets {list(F)} named as {fl} ({sel!r}) differs from the same "
                              f"facets named as an int32 array [{ent.name}, mesh {sname}:{lab}]", case=case)


def run_case(out, m, sname, lab, kind, dim, an, bn, blab, ub, vb, mode, tier, nk):
    from skfem import BilinearForm, LinearForm, Functional, TrilinearForm
    from skfem.element import DiscreteField
    facet = hasattr(ub, 'find')
    ncu, ncv = len(ub.basis[0]), len(vb.basis[0])
    uops = [(c, l, f) for c in range(ncu) for l, f in field_ops(ub.basis[0][c], dim)]
    vops = [(c, l, f) for c in range(ncv) for l, f in field_ops(vb.basis[0][c], dim)]
    cops = coef_ops(facet)
    Nu, Nv = ub.N, vb.N
    nel = ub.nelems
    sig0 = f"C01|{blab.split('[')[0]}|"
    # parameters in all accepted forms
    fvec = 1.0 + 0.5 * np.arange(Nu) % 3 + 0.25 * np.arange(Nu)
    fint = ub.interpolate(fvec)
    f0 = fint[0] if isinstance(fint, tuple) else fint
    fval = np.asarray(f0)
    while fval.ndim > 2:
        fval = fval[0]
    garr = 1.0 + (np.arange(nel)[:, None] % 3) + 0.5 * np.arange(ub.X.shape[-1])[None, :]
    sval = 1.75
    # independent x
    try:
        xx = ub.mapping.G(ub.X, find=ub.find) if facet else ub.mapping.F(ub.X, tind=ub.tind)
        if np.abs(np.asarray(ub.global_coordinates()) - xx).max() > 1e-12:
            out.violation(sig0 + 'default-x', f"w.x differs from the mapped quadrature points [{an} on {sname}:{lab}, {blab}]",
                          case={'seed': sname, 'variant': lab, 'trial': an, 'basis': blab})
    except Exception:
        pass
    combos = [(iu, iv) for iu in range(len(uops)) for iv in range(len(vops))]
    if mode == 'self':
        combos = [c for c in combos if c[0] != c[1]][:3] + [(0, 0)]
    elif len(combos) > (9 if tier == 'quick' else 30):
        ncap = 9 if tier == 'quick' else 30
        stp = len(combos) / float(ncap)
        combos = [combos[int(i * stp)] for i in range(ncap)]
    for n_c, (iu, iv) in enumerate(combos):
        cu, lu, fu = uops[iu]
        cv, lv, fv = vops[iv]
        cl, fc = cops[(iu + 3 * iv + nk) % len(cops)]
        cplx = (iu + iv + nk) % 3 == 0
        z = (1.0 + 2.0j) if cplx else 1.0
        dtype = np.complex128 if cplx else np.float64

        def integrand(*a, cu=cu, cv=cv, fu=fu, fv=fv, fc=fc, z=z):
            w = a[-1]
            return fu(a[cu]) * fv(a[ncu + cv]) * fc(w) * z
        desc = f"{lu}(u{cu})*{lv}(v{cv})*{cl}" + ("*(1+2j)" if cplx else '')
        case = {'seed': sname, 'variant': lab, 'trial': an, 'test': bn, 'basis': blab, 'integrand': desc}
        key = (sname, lab, an, bn, blab, desc)

        def bad(what, msg):
            out.violation(sig0 + what, f"{msg} [trial {an}, test {bn}, {blab}, integrand {desc}, mesh {sname}:{lab}]", case=case)
        out.ev()
        # param forms: f as DOF vector / interpolated field / raw array
        scalar_trial = (not isinstance(fint, tuple)) and np.asarray(f0).ndim == 2
        # a DOF vector of a vector-valued / composite basis interpolates to a non-scalar field: there the
        # coefficient is handed over as raw array / field only
        variants = [('vector', dict(f=fvec.copy() if scalar_trial else fval.copy(), g=garr.copy(), s=sval))]
        if n_c % 2 == 0:
            variants.append(('field', dict(f=fint if scalar_trial else DiscreteField(fval.copy()),
                                           g=DiscreteField(garr.copy()), s=sval)))
            variants.append(('array', dict(f=fval.copy(), g=garr.copy(), s=sval)))
        mats = {}
        try:
            for vl, params in variants:
                mats[vl] = BilinearForm(integrand, dtype=dtype).assemble(ub, vb, **params)
        except Exception as e:
            bad('assemble-exception', repr(e))
            continue
        A = mats['vector']
        if A.shape != (Nv, Nu):
            bad('shape', f"matrix shape {A.shape}, expected (N_test, N_trial) = {(Nv, Nu)}")
            continue
        Ad = A.toarray()
        # route 2: explicit scatter
        w = ub.default_parameters()
        from skfem.assembly.form.form import FormExtraParams
        wd = FormExtraParams({**w, 'f': DiscreteField(fval), 'g': DiscreteField(garr), 's': sval})
        R = np.zeros((Nv, Nu), dtype=dtype)
        S = np.zeros((Nv, Nu))
        ud, vd = ub.element_dofs, vb.element_dofs
        dx = ub.dx
        for j in range(ub.Nbfun):
            for i in range(vb.Nbfun):
                val = integrand(*ub.basis[j], *vb.basis[i], wd) * dx
                loc = np.asarray(val).sum(axis=1)
                np.add.at(R, (vd[i], ud[j]), loc)
                np.add.at(S, (vd[i], ud[j]), np.abs(np.asarray(val)).sum(axis=1))
        tol = 1e-11 * S + 1e-300          # relative to the sum of |contributions| only: no absolute floor
        if (np.abs(Ad - R) > tol).any():
            i, j = np.unravel_index(np.argmax(np.abs(Ad - R) - tol), R.shape)
            tr = " (equals the transpose of the reference)" if Nu == Nv and np.allclose(Ad, R.T, atol=1e-11) else ''
            bad('matrix-vs-scatter', f"A[{i},{j}] = {Ad[i, j]!r} but sum_q integrand(phi_{j}, psi_{i}) dx = {R[i, j]!r}{tr}")
            continue
        for vl, M in mats.items():
            if vl != 'vector' and (abs(M - A) > 0).nnz and np.abs((M - A).toarray()).max() > 1e-13 * (1 + np.abs(Ad).max()):
                bad('parameter-form', f"coefficient passed as {vl} gives a different matrix than passed as DOF vector "
                    f"(max diff {np.abs((M - A).toarray()).max():.3e})")
        nzv = np.unique(np.round(np.abs(R[np.abs(R) > 1e-14]), 10))
        if len(nzv) >= 2 and (Nu != Nv or not np.allclose(R, R.T)):
            out.nt(key)
        out.outcome((an, bn, blab.split('[')[0], desc))
        # route 3: functional on interpolated unit vectors
        npairs = Nu * Nv
        cap = BOUNDS[tier]['route3_max_pairs']
        js = range(Nu) if npairs <= cap else sorted({0, Nu // 2, Nu - 1})
        is_ = range(Nv) if npairs <= cap else sorted({0, Nv // 2, Nv - 1})
        pairs = [(i, j) for j in js for i in range(Nv)] + [(i, j) for i in is_ for j in range(Nu)] if npairs > cap else \
            [(i, j) for j in range(Nu) for i in range(Nv)]
        if n_c % 3 == 0:
            fun = Functional(lambda w: integrand(*(w[f'uu{c}'] for c in range(ncu)), *(w[f'vv{c}'] for c in range(ncv)), w),
                             dtype=dtype)
            Ui = {}
            Vi = {}
            okf = True
            for (i, j) in pairs:
                if j not in Ui:
                    e = np.zeros(Nu)
                    e[j] = 1
                    r = ub.interpolate(e)
                    Ui[j] = r if isinstance(r, tuple) else (r,)
                if i not in Vi:
                    e = np.zeros(Nv)
                    e[i] = 1
                    r = vb.interpolate(e)
                    Vi[i] = r if isinstance(r, tuple) else (r,)
                kw = {f'uu{c}': Ui[j][c] for c in range(ncu)}
                kw.update({f'vv{c}': Vi[i][c] for c in range(ncv)})
                try:
                    s = fun.assemble(ub, f=DiscreteField(fval), g=DiscreteField(garr), s=sval, **kw)
                except Exception as e:
                    bad('functional-exception', repr(e))
                    okf = False
                    break
                out.ev()
                if abs(s - R[i, j]) > 1e-10 * S[i, j] + 1e-300:
                    bad('functional-vs-matrix', f"v^T A u for u=e_{j}, v=e_{i}: matrix entry {R[i, j]!r} but the functional of the "
                        f"integrand on the interpolated unit vectors gives {s!r}")
                    okf = False
                    break
        # threaded
        if n_c % 4 == 1:
            for nth in (1, 2, 3):
                At = BilinearForm(integrand, dtype=dtype, nthreads=nth).assemble(ub, vb, f=fval.copy(), g=garr.copy(), s=sval)
                if At.shape != A.shape or np.abs((At - A).toarray()).max() > 1e-14 * (1 + np.abs(Ad).max()):
                    bad('threaded', f"nthreads={nth} differs from serial assembly")
        # elemental
        if n_c % 4 == 2:
            try:
                el = BilinearForm(integrand, dtype=dtype).elemental(ub, vb, f=fval.copy(), g=garr.copy(), s=sval)
                if np.abs(el.toarray() - Ad).max() > 1e-12 * (1 + np.abs(Ad).max()):
                    bad('elemental', "elemental(...).toarray() differs from assemble(...)")
            except Exception as e:
                bad('elemental-exception', repr(e))
        # linear form and functional with the same parameter forms
        if n_c % 3 == 1:
            def lin(*a, cv=cv, fv=fv, fc=fc, z=z):
                return fv(a[cv]) * fc(a[-1]) * z
            try:
                bvec = LinearForm(lin, dtype=dtype).assemble(vb, f=(fvec.copy() if (vb is ub and not isinstance(fint, tuple)
                                                                                     and np.asarray(f0).ndim == 2) else fval.copy()),
                                                             g=garr.copy(), s=sval)
                wv = FormExtraParams({**vb.default_parameters(), 'f': DiscreteField(fval), 'g': DiscreteField(garr), 's': sval})
                Rb = np.zeros(Nv, dtype=dtype)
                Sb = np.zeros(Nv)
                for i in range(vb.Nbfun):
                    val = lin(*vb.basis[i], wv) * vb.dx
                    np.add.at(Rb, vd[i], np.asarray(val).sum(axis=1))
                    np.add.at(Sb, vd[i], np.abs(np.asarray(val)).sum(axis=1))
                if bvec.shape != (Nv,) or (np.abs(bvec - Rb) > 1e-11 * Sb + 1e-300).any():
                    bad('vector-vs-scatter', "LinearForm.assemble differs from the explicit scatter")
                funl = Functional(lambda w: lin(*(w[f'vv{c}'] for c in range(ncv)), w), dtype=dtype)
                for i in range(Nv):
                    e = np.zeros(Nv)
                    e[i] = 1
                    r = vb.interpolate(e)
                    r = r if isinstance(r, tuple) else (r,)
                    s = funl.assemble(vb, f=DiscreteField(fval), g=DiscreteField(garr), s=sval,
                                      **{f'vv{c}': r[c] for c in range(ncv)})
                    out.ev()
                    if abs(s - Rb[i]) > 1e-10 * Sb[i] + 1e-300:
                        bad('functional-vs-vector', f"b[{i}] = {Rb[i]!r} but the functional on interpolate(e_{i}) gives {s!r}")
                        break
                # scalar: J = sum_c elemental
                funJ = Functional(lambda w: fc(w) * z + 0 * w.x[0], dtype=dtype)
                J = funJ.assemble(vb, f=DiscreteField(fval), g=DiscreteField(garr), s=sval)
                Je = funJ.elemental(vb, f=DiscreteField(fval), g=DiscreteField(garr), s=sval)
                Jt = (fc(wv) * z + 0 * np.asarray(wv['x'])[0]) * vb.dx
                Jr = Jt.sum()
                Js = np.abs(Jt).sum() + 1e-300
                if abs(J - Jr) > 1e-11 * Js or abs(Je.sum() - Jr) > 1e-11 * Js or Je.shape != (vb.nelems,):
                    bad('functional-scalar', f"Functional.assemble = {J!r}, elemental sum = {Je.sum()!r}, explicit sum = {Jr!r}")
            except Exception as e:
                bad('linear-exception', repr(e))
        # user parameters named like the basis defaults (h, x) override them identically in all three form types
        if n_c == 0:
            try:
                hv = 0.37
                xo = DiscreteField(np.asarray(ub.global_coordinates()) * 0 + 2.0)

                def ig(*a, cu=cu, cv=cv, fu=fu, fv=fv):
                    return fu(a[cu]) * fv(a[ncu + cv]) * a[-1].h * a[-1].x[0]
                Ao = BilinearForm(ig).assemble(ub, vb, h=hv, x=xo).toarray()
                Ro = np.zeros((Nv, Nu))
                for j in range(ub.Nbfun):
                    for i in range(vb.Nbfun):
                        loc = (fu(ub.basis[j][cu]) * fv(vb.basis[i][cv]) * hv * 2.0 * dx).sum(axis=1)
                        np.add.at(Ro, (vd[i], ud[j]), loc)
                if np.abs(Ao - Ro).max() > 1e-11 * (1 + np.abs(Ro).max()):
                    bad('override-default-bilinear', "user parameters h= / x= do not replace the basis defaults in BilinearForm")

                def lg(*a, cv=cv, fv=fv):
                    return fv(a[cv]) * a[-1].h * a[-1].x[0]
                bo = LinearForm(lg).assemble(vb, h=hv, x=xo)
                Rb = np.zeros(Nv)
                for i in range(vb.Nbfun):
                    np.add.at(Rb, vd[i], (fv(vb.basis[i][cv]) * hv * 2.0 * vb.dx).sum(axis=1))
                if np.abs(bo - Rb).max() > 1e-11 * (1 + np.abs(Rb).max()):
                    bad('override-default-linear', "user parameters h= / x= do not replace the basis defaults in LinearForm")
                Jo = Functional(lambda w: w.h * w.x[0] + 0 * w['g']).assemble(vb, h=hv, x=xo, g=DiscreteField(garr))
                if abs(Jo - hv * 2.0 * vb.dx.sum()) > 1e-11 * (1 + abs(Jo)):
                    bad('override-default-functional', f"user parameters h= / x= do not replace the basis defaults in Functional "
                        f"({Jo!r} vs {hv * 2.0 * vb.dx.sum()!r})")
            except Exception as e:
                bad('override-default-exception', repr(e))
        # coefficient vectors of other dtypes (float32 / integer / complex64 hold the same VALUES as their float64 /
        # complex128 copies): interpolation and parameter passing depend on the values only
        if n_c == 0:
            try:
                base = np.round(fvec * 4) / 4
                for dt, wide in ((np.float32, np.float64), (np.int64, np.float64), (np.complex64, np.complex128)):
                    wv_ = (np.round(base) if dt is np.int64 else base * ((1 + .5j) if dt is np.complex64 else 1)).astype(dt)
                    r1 = ub.interpolate(wv_)
                    r2 = ub.interpolate(wv_.astype(wide))
                    r1 = r1 if isinstance(r1, tuple) else (r1,)
                    r2 = r2 if isinstance(r2, tuple) else (r2,)
                    out.ev()
                    for c_, (d1, d2) in enumerate(zip(r1, r2)):
                        for a1, a2 in zip(d1.astuple, d2.astuple):
                            if a1 is None and a2 is None:
                                continue
                            if np.abs(np.asarray(a1) - np.asarray(a2)).max() > 1e-13 * (1 + np.abs(np.asarray(a2)).max()):
                                bad('interpolate-dtype', f"interpolate of a {np.dtype(dt).name} coefficient vector differs from the "
                                    f"same values as {np.dtype(wide).name} by {np.abs(np.asarray(a1) - np.asarray(a2)).max():.3e}")
                                raise StopIteration
                    if scalar_trial and dt is not np.complex64:
                        J1 = Functional(lambda w: w['f'] * (1 + w.x[0])).assemble(ub, f=wv_)
                        J2 = Functional(lambda w: w['f'] * (1 + w.x[0])).assemble(ub, f=wv_.astype(wide))
                        if abs(J1 - J2) > 1e-13 * (1 + abs(J2)):
                            bad('parameter-dtype', f"a {np.dtype(dt).name} coefficient vector passed as form parameter gives {J1!r}, "
                                f"the same values as {np.dtype(wide).name} give {J2!r}")
            except StopIteration:
                pass
            except Exception as e:
                bad('interpolate-dtype-exception', repr(e))
        # a functional built without dtype keeps what its integrand returns (a complex integrand gives a complex scalar)
        if n_c == 0:
            try:
                Jc1 = Functional(lambda w: (1.0 + 2.0j) * (1 + w.x[0]) * w['g']).assemble(vb, g=DiscreteField(garr))
                Jc2 = Functional(lambda w: (1.0 + 2.0j) * (1 + w.x[0]) * w['g'], dtype=np.complex128).assemble(vb, g=DiscreteField(garr))
                out.ev()
                if abs(Jc1 - Jc2) > 1e-13 * (1 + abs(Jc2)):
                    bad('functional-default-dtype', f"Functional without dtype on a complex integrand gives {Jc1!r}, with dtype=complex "
                        f"{Jc2!r}")
            except Exception as e:
                bad('functional-default-dtype-exception', repr(e))
        # vector- and tensor-valued functionals: every component is the integral of that component
        if n_c == 0:
            try:
                xq_ = np.asarray(vb.global_coordinates())
                Fv = Functional(lambda w: w.x * (1 + w.x[0]))
                gotv, elv = Fv.assemble(vb), Fv.elemental(vb)
                wantel = (xq_ * (1 + xq_[0]) * vb.dx).sum(-1)
                out.ev()
                if np.shape(elv) != wantel.shape or np.abs(elv - wantel).max() > 1e-12 * (1 + np.abs(wantel).max()) \
                        or np.shape(gotv) != (dim,) or np.abs(gotv - wantel.sum(-1)).max() > 1e-12 * (1 + np.abs(wantel).max()):
                    bad('functional-vector-valued', f"vector-valued Functional: elemental shape {np.shape(elv)} (expected "
                        f"{wantel.shape}), assemble shape {np.shape(gotv)} (expected {(dim,)}) or values differ")
                Ft = Functional(lambda w: w.x[:, None] * w.x[None, :] * (1 + w.x[0]))
                gott, elt = Ft.assemble(vb), Ft.elemental(vb)
                wantt = (xq_[:, None] * xq_[None, :] * (1 + xq_[0]) * vb.dx).sum(-1)
                if np.shape(elt) != wantt.shape or np.abs(elt - wantt).max() > 1e-12 * (1 + np.abs(wantt).max()) \
                        or np.shape(gott) != (dim, dim) or np.abs(gott - wantt.sum(-1)).max() > 1e-12 * (1 + np.abs(wantt).max()):
                    bad('functional-tensor-valued', f"matrix-valued Functional: elemental shape {np.shape(elt)} (expected "
                        f"{wantt.shape}), assemble shape {np.shape(gott)} (expected {(dim, dim)}) or values differ")
            except Exception as e:
                bad('functional-vector-valued-exception', repr(e))
        # trilinear on tiny meshes (first integrand only)
        if n_c == 0 and nel <= 3 and ub.Nbfun * vb.Nbfun * ub.Nbfun <= 400 and ncu == 1 and ncv == 1:
            def tri(u, v, q, w, fu=fu, fv=fv):
                return fu(u) * fv(v) * fu(q) * (1.0 + w.x[0])
            try:
                Tt = TrilinearForm(tri).assemble(ub, vb, ub)
                Td = Tt.toarray() if hasattr(Tt, 'toarray') else np.asarray(Tt)
                Rt = np.zeros((Nu, Nv, Nu))
                wt = FormExtraParams(ub.default_parameters())
                for k in range(ub.Nbfun):
                    for jj in range(vb.Nbfun):
                        for ii in range(ub.Nbfun):
                            loc = (tri(ub.basis[k][0], vb.basis[jj][0], ub.basis[ii][0], wt) * dx).sum(axis=1)
                            np.add.at(Rt, (ud[ii], vd[jj], ud[k]), loc)
                if Td.shape != Rt.shape or np.abs(Td - Rt).max() > 1e-11 * (1 + np.abs(Rt).max()):
                    bad('trilinear', "TrilinearForm tensor differs from the explicit scatter (index order w, v, u)")
            except Exception as e:
                bad('trilinear-exception', repr(e))
        if nk == 1 and n_c == 0 and lab == 'plain':
            out.sample({'mesh': f'{sname}:{lab}', 'trial': an, 'test': bn, 'basis': blab, 'integrand': desc, 'N_trial': int(Nu),
                        'N_test': int(Nv)}, 2)


def reconstruct_basis(out, m, kind, b, ent, blab, role, sname, lab):
    """Rebuild what the basis object should hold from the public element / mapping API and the set
    topology: integrated entities, neighbour selection by side, local->global numbers, basis values at the
    reference images of the physical quadrature points, dx."""
    from ..topo import Topo
    from skfem.assembly import Dofs
    sig0 = f"C01|{blab.split('[')[0]}|basis-"
    case = {'seed': sname, 'variant': lab, 'element': ent.name, 'basis': blab, 'role': role}

    def bad(what, msg):
        out.violation(sig0 + what, f"{msg} [{role} {ent.name}, {blab}, mesh {sname}:{lab}]", case=case)
    out.ev()
    elem = ent.make()
    mp = b.mapping
    X, W = b.X, b.W
    T = Topo(kind, m.t)
    facet = hasattr(b, 'find')
    try:
        if not facet:
            S = None
            if blab.startswith('cells['):
                S = np.array(eval(blab[5:]), dtype=np.int32)
            tind = np.arange(m.t.shape[1]) if S is None else S
            if b.nelems != len(tind) or (b.tind is not None and not np.array_equal(np.asarray(b.tind), tind)):
                bad('cells', f"integrates cells {None if b.tind is None else np.asarray(b.tind).tolist()}, requested {tind.tolist()}")
                return
            Y = X
            dx = np.abs(mp.detDF(X, None if S is None else tind)) * W
        else:
            find = np.asarray(b.find)
            if blab == 'boundary':
                want = sorted(j for j, f in enumerate(frozenset(int(v) for v in col) for col in m.facets.T)
                              if len(T.facet_cells[f]) == 1)
            elif blab.startswith('interior'):
                want = sorted(j for j, f in enumerate(frozenset(int(v) for v in col) for col in m.facets.T)
                              if len(T.facet_cells[f]) == 2)
            else:
                want = eval(blab[blab.index('['):])
            if sorted(find.tolist()) != sorted(want):
                bad('facets', f"integrates facets {find.tolist()}, requested {want}")
                return
            side = 1 if (blab == 'interior-side1' or (blab == 'interior-trial0-test1' and role == 'test')) else 0
            tind = np.asarray(b.tind)
            for k, j in enumerate(find):
                cells = sorted(T.facet_cells[frozenset(int(v) for v in m.facets[:, j])])
                # which neighbour is 'first' is the mesh's f2t convention (coherence of f2t with the cell list is C11)
                exp = int(m.f2t[side, j]) if len(cells) > side else None
                if exp is not None and exp not in cells:
                    exp = None
                if int(tind[k]) != exp:
                    bad('neighbour', f"facet {int(j)} (cells {cells}) is evaluated from cell {int(tind[k])} for side {side}, "
                        f"expected {exp}")
                    return
            x = mp.G(X, find=find)
            Y = mp.invF(x, tind=tind)
            dx = np.abs(mp.detDG(X, find=find)) * W
        if dx.shape != np.asarray(b.dx).shape or np.abs(dx - b.dx).max() > 1e-12 * (1 + np.abs(dx).max()):
            bad('dx', "dx differs from |det| * weights of the integrated entities")
        ed = Dofs(m, elem).element_dofs[:, tind]
        if not np.array_equal(ed, b.element_dofs):
            bad('element_dofs', "basis.element_dofs is not the per-cell numbering of the integrated cells")
            return
        for j in sorted({0, b.Nbfun // 2, b.Nbfun - 1}):
            gb = elem.gbasis(mp, Y, j, tind=tind if (facet or b.tind is not None) else None)
            for c, (f1, f2) in enumerate(zip(gb, b.basis[j])):
                for a1, a2 in zip(f1.astuple, f2.astuple):
                    if (a1 is None) != (a2 is None):
                        bad('fields', f"basis function {j} delivers different derivative fields")
                        return
                    if a1 is not None:
                        a1 = np.broadcast_to(a1, np.asarray(a2).shape) if np.asarray(a1).shape != np.asarray(a2).shape else a1
                        if np.abs(np.asarray(a1) - np.asarray(a2)).max() > 1e-9 * (1 + np.abs(np.asarray(a2)).max()):
                            bad('values', f"stored values of local basis function {j} differ from the element evaluated on the "
                                f"integrated cells at the quadrature points")
                            return
    except Exception as e:
        out.count('basis_reconstruction_unsupported:' + ent.name)
