"""C06 - Galerkin exactness end to end (patch test and projection identity)."""
from __future__ import annotations

import itertools
import warnings
from fractions import Fraction as Fr

import numpy as np

from ..report import Out
from .. import meshspace as ms
from .. import meshops as mo
from .. import catalogue as cat
from .. import exact as ex
from ..exact import Poly
from ..topo import REF, KIND_OF_CLASS
from . import c10

ID = 'C06'
# sub-checks added after the seeded-change waves (DESIGN.md sections 5 and 6)
EXTENSIONS = [
    'enforce pipeline, dict-of-views Dirichlet sets, anisotropic problem written with helpers.mul, complex projections',
    'unsorted kept set without expansion, complex-valued data with the real matrix, vector elements with edge and facet DOFs, split solution components; singular splits on disconnected meshes are not legal inputs',
]
LEVEL = 'exploration'
TECHNIQUE = "small-scope exhaustive enumeration (meshes x elements x all monomial solutions x boundary splits / all unit vectors x regions) with exact-reproduction oracle"
LEVEL_TEXT = ("Patch test: irregular affine-cell meshes of every cell type (plain, renumbered, graded by adaptive refinement, mirrored) "
              "x every polynomial-complete element with its degree k x ALL monomials of degree <= k as exact solution (linearity of "
              "the problem in its data extends this to all polynomials) x Poisson, reaction-diffusion and (vector elements) linear "
              "elasticity x every split of the boundary facets into Dirichlet / Neumann parts (all subsets on <= 4 boundary facets, "
              "a bounded family beyond; pure Neumann only with reaction). The library pipeline is used end to end: get_dofs on the "
              "Dirichlet facets, FacetBasis.project of the data, condense, solve, interpolate; the discrete solution and its "
              "gradient must equal the polynomial at all quadrature points (1e-9 relative). Degree-one solutions additionally on "
              "general convex quadrilaterals and hexahedra. Projection identity: every catalogue element x ALL unit vectors x "
              "{whole mesh, tagged subdomains, boundary parts}, curved second-order meshes included: project(interpolate(e_k)) == "
              "e_k on the DOFs get_dofs returns for the region.")
LEVEL_NOTE = ("Source terms and Neumann data are derived from the exact solution by exact polynomial differentiation (Fraction "
              "coefficients) and evaluated in floating point; SciPy's direct solver is trusted (systems of <= 300 unknowns).")
RULE = ("case = (mesh, element, problem, monomial, boundary split) or (mesh, element, region, unit vector). non-trivial = distinct "
        "patch-test case with at least one free (unconstrained) DOF and a non-constant solution; distinct projection case with "
        "non-zero e_k on the region.")
ASSUMPTIONS = ["affine cells for degree k >= 2; prisms: Dirichlet data by nodal values (no facet basis)",
               "boundary projection identity is judged for H1-conforming nodal elements (trace determined by the facet DOFs)"]
BOUNDS = {'quick': {'splits': 'all subsets for <= 4 boundary facets, else 5 designated', 'degree_max': 3},
          'thorough': {'splits': 'all subsets for <= 6 boundary facets, else 8 designated', 'degree_max': 4}}
ITEM_TIMEOUT = {'quick': 900, 'thorough': 7200}

# element -> degree of polynomial completeness
PATCH = {
    'line': {'ElementLineP1': 1, 'ElementLineP2': 2, 'ElementLinePp(3)': 3, 'ElementLineMini': 1},
    'tri': {'ElementTriP1': 1, 'ElementTriP2': 2, 'ElementTriP3': 3, 'ElementTriP4': 4, 'ElementTriMini': 1, 'ElementTriCCR': 2,
            'ElementTriP1B': 1, 'ElementTriP2B': 2},
    'quad': {'ElementQuad1': 1, 'ElementQuad2': 2, 'ElementQuadS2': 2, 'ElementQuadP(3)': 3},
    'tet': {'ElementTetP1': 1, 'ElementTetP2': 2, 'ElementTetMini': 1, 'ElementTetCCR': 2},
    'hex': {'ElementHex1': 1, 'ElementHex2': 2, 'ElementHexS2': 2},
    'wedge': {'ElementWedge1': 1},
}
VECTOR = {'tri': {'ElementVector(TriP1)': 1, 'ElementVector(TriP2)': 2}, 'quad': {'ElementVector(Quad2)': 2},
          'tet': {'ElementVector(TetP2)': 2, 'ElementVector(TetCCR)': 2}, 'hex': {'ElementVector(Hex1)': 1, 'ElementVector(HexS2)': 2}}


def axis_mesh(kind):
    import skfem.mesh as M
    if kind == 'hex':
        return M.MeshHex1.init_tensor(np.array([0., .75, 2.]), np.array([-.5, 1.]), np.array([0., .5, 2.]))
    if kind == 'wedge':
        from skfem import MeshLine
        return ms.seeds(0)['T2'].build() * MeshLine(np.array([0., .5, 2.]))
    raise KeyError(kind)


MESHES = {
    'line': [('L3', 'plain'), ('Lrev', 'plain'), ('L3', 'adaptive')],
    'tri': [('T2', 'plain'), ('TL6', 'plain'), ('Tfan4', 'vswap'), ('T2', 'adaptive'), ('TL6', 'mirrored')],
    'quad': [('Q4par', 'plain'), ('Q4par', 'lorder'), ('Q4par', 'mirrored'), ('Q4gen', 'general'), ('Q2', 'general'), ('Qmix', 'general')],
    'tet': [('K2', 'plain'), ('K3e', 'plain'), ('K2', 'adaptive'), ('K3e', 'mirrored')],
    'hex': [('Haxis', 'plain'), ('Haxis', 'mirrored'), ('H2', 'general')],
    'wedge': [('Waxis', 'plain')],
}


def get_mesh(name, lab, seed):
    if name == 'Haxis':
        m = axis_mesh('hex')
    elif name == 'Waxis':
        m = axis_mesh('wedge')
    else:
        st0 = ms.seeds(seed)[name]
        m = st0.build()
        if lab == 'vswap':
            m = list(ms.raw_transitions(st0))[0][1].build()
        elif lab == 'lorder':
            m = [x for x in ms.raw_transitions(st0) if x[0].startswith('lorder')][0][1].build()
        elif lab == 'adaptive':
            m = m.refined(np.array([0])).refined(np.array([1]))
    if lab == 'mirrored':
        m = m.mirrored(tuple([1.] + [0.] * (m.p.shape[0] - 1)))
    return m


MESHES_THOROUGH = {'tri': [('Tring8', 'plain'), ('T3comp', 'plain'), ('TL6', 'adaptive')], 'quad': [('Q4par', 'vswap')],
                   'tet': [('K5', 'plain'), ('K6', 'plain')], 'line': [('L2c', 'plain')]}


def items(tier, seed):
    its = []
    for kind, meshes in MESHES.items():
        if tier == 'thorough':
            meshes = meshes + MESHES_THOROUGH.get(kind, [])
        for (n, lab) in meshes:
            for en in PATCH[kind]:
                its.append(('patch', n, lab, en))
            for en in VECTOR.get(kind, {}):
                if lab != 'general':
                    its.append(('elasticity', n, lab, en))
    for kind, sname in (('line', 'L3'), ('tri', 'Tfan4'), ('quad', 'Q2'), ('tet', 'K2'), ('hex', 'H2'), ('wedge', 'W2')):
        for lab in ('plain', 'order2-curved') if kind in ('tri', 'quad', 'tet', 'hex') else ('plain',):
            for e in cat.entries(kind, wrappers=True):
                if e.family != 'unclassified' and e.kind == kind:
                    its.append(('project', sname, lab, e.name))
    return its


def cost(item):
    w = {'H2': 6, 'Haxis': 6, 'K3e': 3, 'K2': 2, 'TL6': 2}.get(item[1], 1)
    h = 6 if any(s in item[3] for s in ('Argyris', 'HexC1', 'BFS', '15Param', 'Hex2', 'P4', 'Morley', 'Hermite')) else 1
    return w * h


def boundary_splits(nb, tier):
    """Dirichlet facet subsets (positions in the boundary facet list)."""
    lim = 4 if tier == 'quick' else 6
    if nb <= lim:
        out = []
        for k in range(0, nb + 1):
            out += list(itertools.combinations(range(nb), k))
        return out
    base = [tuple(range(nb)), tuple(range(nb // 2)), (0,), tuple(range(0, nb, 2)), ()]
    if tier == 'thorough':
        base += [tuple(range(nb // 2, nb)), (nb - 1,), tuple(range(1, nb, 2))]
    return base


def poly_field(P, X):
    return P.evalf(X)


def work(item, tier, seed):
    out = Out()
    out.set_item(item)
    warnings.simplefilter('ignore')
    mode, name, lab, ename = item
    if mode == 'patch':
        patch(name, lab, ename, tier, seed, out)
    elif mode == 'elasticity':
        elasticity(name, lab, ename, tier, seed, out)
    else:
        projection(name, lab, ename, tier, seed, out)
    return out


def dirichlet_values(m, kind, ent, basis, Dfac, ufun):
    """Boundary DOFs on the Dirichlet facets with the boundary projection of the data."""
    from skfem import FacetBasis
    D = basis.get_dofs(np.array(Dfac, dtype=np.int32)).flatten()
    x = np.zeros(basis.N)
    if len(Dfac) == 0:
        return D, x
    if kind == 'wedge':
        x[D] = ufun(basis.doflocs[:, D])
        return D, x
    fb = FacetBasis(m, ent.make(), facets=np.array(Dfac, dtype=np.int32))
    xp = fb.project(ufun)
    x[D] = xp[D]
    return D, x


def components(m, bfac):
    """Components of the mesh connected through shared FACETS (cells that merely touch in a vertex or edge do not
    transmit enough constraints: a single shared vertex leaves a rotation free in elasticity and nothing at all for
    elements without vertex DOFs): component label of every boundary facet, all labels.  A pure diffusion / elasticity
    problem needs Dirichlet data on each component, else it is singular there."""
    nt = m.t.shape[1]
    lab_c = list(range(nt))

    def find(a):
        while lab_c[a] != a:
            lab_c[a] = lab_c[lab_c[a]]
            a = lab_c[a]
        return a
    for j in range(m.f2t.shape[1]):
        a, b = int(m.f2t[0, j]), int(m.f2t[1, j])
        if b >= 0:
            lab_c[find(a)] = find(b)
    return ({j: find(int(m.f2t[0, j])) for j in bfac}, {find(c) for c in range(nt)})


def patch(name, lab, ename, tier, seed, out):
    from skfem import CellBasis, FacetBasis, BilinearForm, LinearForm, condense, solve
    from skfem.models.poisson import laplace, mass
    m = get_mesh(name, lab, seed)
    kind = KIND_OF_CLASS[type(m).__name__]
    dim = REF[kind]['dim']
    ent = cat.by_name(ename)
    k = PATCH[kind][ename]
    if lab == 'general':
        k = 1
    k = min(k, BOUNDS[tier]['degree_max'])
    basis = CellBasis(m, ent.make())
    A0 = laplace.assemble(basis)
    M0 = mass.assemble(basis)
    bfac = [int(j) for j in m.boundary_facets()]
    nb = len(bfac)
    comp_of_facet, allcomps = components(m, bfac)
    sig0 = f"C06|patch|{ename}|"
    xq = np.asarray(basis.global_coordinates())
    cacheA = {}
    for mono in ex.monomials_total(dim, k):
        U = Poly.monomial(dim, mono)
        gradU = [U.diff(i) for i in range(dim)]
        lapU = sum((gradU[i].diff(i) for i in range(dim)), Poly(dim))
        ufun = lambda X, U=U: U.evalf(X)          # noqa: E731
        for problem in ('poisson', 'reaction') + (('aniso',) if dim >= 2 and kind != 'wedge' else ()):
            if problem == 'aniso':
                # non-symmetric constant diffusion tensor written with the integrand helpers mul / dot / grad
                from skfem.helpers import mul, dot, grad
                Kc = np.array([[2., 1., 0.], [.5, 3., .25], [0., -.5, 1.5]])[:dim, :dim]
                flux = [sum((gradU[j] * Fr(float(Kc[i, j])) for j in range(dim)), Poly(dim)) for i in range(dim)]
                F = -sum((flux[i].diff(i) for i in range(dim)), Poly(dim))
                if 'aniso' not in cacheA:
                    cacheA['aniso'] = BilinearForm(lambda u, v, w: dot(mul(Kc[:, :, None, None] + 0 * w.x[0], grad(u)),
                                                                       grad(v))).assemble(basis)
                A = cacheA['aniso']
            else:
                flux = gradU
                F = (-lapU) if problem == 'poisson' else (U - lapU)
                A = A0 if problem == 'poisson' else A0 + M0
            fvec = LinearForm(lambda v, w, F=F: F.evalf(w.x) * v).assemble(basis)
            for Dsel in boundary_splits(nb, tier):
                if problem in ('poisson', 'aniso') and len(Dsel) == 0:
                    continue
                Dfac = [bfac[i] for i in Dsel]
                if problem in ('poisson', 'aniso') and {comp_of_facet[j] for j in Dfac} != allcomps:
                    # a connected component without Dirichlet data: the problem is singular there (not a legal input)
                    out.count('singular_split_on_disconnected_mesh_skipped')
                    continue
                Nfac = [j for j in bfac if j not in Dfac]
                case = {'mesh': f'{name}:{lab}', 'element': ename, 'problem': problem, 'solution': f'x^{mono}',
                        'dirichlet_facets': Dfac}

                rot = '|input=rotated-local-order' if lab == 'lorder' else ''

                def bad(what, msg):
                    out.violation(sig0 + what + rot, f"{msg} [element {ename}, mesh {name}:{lab}, {problem}, u = x^{mono}, "
                                  f"Dirichlet facets {Dfac}]", case=case)
                out.ev()
                try:
                    b = fvec.copy()
                    if Nfac and kind != 'wedge':
                        fbN = FacetBasis(m, ent.make(), facets=np.array(Nfac, dtype=np.int32))
                        b = b + LinearForm(lambda v, w: sum(flux[i].evalf(w.x) * w.n[i] for i in range(dim)) * v).assemble(fbN)
                    elif Nfac:
                        continue
                    D, xD = dirichlet_values(m, kind, ent, basis, Dfac, ufun)
                    if len(D) == basis.N:
                        x = xD
                    elif len(D) == 0:
                        x = solve(A, b)
                    elif (len(Dsel) + 2 * sum(mono)) % 5 == 3:
                        # the kept set given explicitly, in descending order, without expansion: the caller scatters the
                        # solution of A[I][:, I] y = b[I] - A[I, D] x[D] back through the SAME index array
                        Iord = np.setdiff1d(np.arange(basis.N), D)[::-1].copy()
                        AII, bI = condense(A, b, x=xD, I=Iord, expand=False)
                        x = xD.copy()
                        x[Iord] = solve(AII, bI)
                    elif (len(Dsel) + 2 * sum(mono)) % 5 == 4:
                        # complex-valued data with the real system matrix: (1+2j) u solves the problem with (1+2j) f, g, u_D
                        zc = 1.0 + 2.0j
                        xc = np.asarray(solve(*condense(A, b * zc, x=xD * zc, D=D)))
                        if not np.iscomplexobj(xc) or np.abs((xc / zc).imag).max() > 1e-9 * (1 + np.abs(xc).max()):
                            bad('complex-data', "complex-valued data (1+2j)*(f, g, u_D) with the real matrix: the solution is not "
                                "(1+2j) times the real solution (imaginary part lost?)")
                            continue
                        x = (xc / zc).real
                    elif (len(Dsel) + sum(mono)) % 3 == 2:
                        # the same constraint imposed by enforce() on the SAME assembled matrix (which must stay intact for
                        # the following boundary splits)
                        from skfem import enforce
                        x = solve(*enforce(A, b, x=xD, D=D))
                    elif len(Dfac) >= 2 and len(Dsel) % 2 == 0:
                        # the same Dirichlet set named as a dictionary of per-facet views (they overlap at shared vertices)
                        Dd = {f'f{j}': basis.get_dofs(np.array([j], dtype=np.int32)) for j in Dfac}
                        x = solve(*condense(A, b, x=xD, D=Dd))
                    else:
                        x = solve(*condense(A, b, x=xD, D=D))
                except Exception as e:
                    bad('exception', repr(e))
                    continue
                uh = basis.interpolate(x)
                ue = U.evalf(xq)
                sc = 1 + np.abs(ue).max()
                err = np.abs(np.asarray(uh) - ue).max()
                if not np.isfinite(err) or err > 1e-9 * sc:
                    bad('solution', f"discrete solution differs from the polynomial by {err:.3e} at the quadrature points")
                    continue
                ge = np.array([g.evalf(xq) for g in gradU])
                gerr = np.abs(np.asarray(uh.grad) - ge).max()
                if gerr > 1e-8 * (1 + np.abs(ge).max()):
                    bad('gradient', f"gradient of the discrete solution differs from the exact gradient by {gerr:.3e}")
                    continue
                if len(D) < basis.N and sum(mono) >= 1:
                    out.nt((name, lab, ename, problem, mono, tuple(Dsel)))
                out.outcome((ename, problem, sum(mono), len(Dsel) == nb))
    out.sample({'mesh': f'{name}:{lab}', 'element': ename, 'degree': k, 'boundary_facets': nb,
                'splits': len(boundary_splits(nb, tier))}, 1)


def elasticity(name, lab, ename, tier, seed, out):
    from skfem import CellBasis, FacetBasis, BilinearForm, LinearForm, condense, solve
    from skfem.models.elasticity import linear_elasticity
    m = get_mesh(name, lab, seed)
    kind = KIND_OF_CLASS[type(m).__name__]
    dim = REF[kind]['dim']
    ent = cat.by_name(ename)
    k = min(VECTOR[kind][ename], BOUNDS[tier]['degree_max'])
    lam, mu = 1.5, 0.75
    basis = CellBasis(m, ent.make())
    A = BilinearForm(linear_elasticity(lam, mu)).assemble(basis)
    bfac = [int(j) for j in m.boundary_facets()]
    nb = len(bfac)
    xq = np.asarray(basis.global_coordinates())
    sig0 = f"C06|elasticity|{ename}|"
    monos = ex.monomials_total(dim, k)
    # displacement with one monomial component (all components x all monomials) plus one mixed field
    fields = [(c, mono) for c in range(dim) for mono in monos if sum(mono) >= 1]
    splits = [s for s in boundary_splits(nb, tier) if len(s) >= max(1, dim - 1)][:6]
    comp_of_facet, allcomps = components(m, bfac)
    for c, mono in fields:
        U = [Poly(dim) for _ in range(dim)]
        U[c] = Poly.monomial(dim, mono)
        U[(c + 1) % dim] = U[(c + 1) % dim] + Poly.var(dim, 0) * Fr(1, 2)
        G = [[U[i].diff(j) for j in range(dim)] for i in range(dim)]
        eps = [[(G[i][j] + G[j][i]) * Fr(1, 2) for j in range(dim)] for i in range(dim)]
        tr = sum((eps[i][i] for i in range(dim)), Poly(dim))
        sig = [[eps[i][j] * (2 * mu) + (tr * lam if i == j else Poly(dim)) for j in range(dim)] for i in range(dim)]
        f = [-(sum((sig[i][j].diff(j) for j in range(dim)), Poly(dim))) for i in range(dim)]
        fvec = LinearForm(lambda v, w: sum(f[i].evalf(w.x) * v[i] for i in range(dim))).assemble(basis)
        ufun = lambda X: np.array([U[i].evalf(X) for i in range(dim)])       # noqa: E731
        for Dsel in splits:
            Dfac = [bfac[i] for i in Dsel]
            Nfac = [j for j in bfac if j not in Dfac]
            if any(sum(1 for j in Dfac if comp_of_facet[j] == cc) < max(1, dim - 1) for cc in allcomps):
                out.count('singular_split_on_disconnected_mesh_skipped')
                continue
            case = {'mesh': f'{name}:{lab}', 'element': ename, 'solution': f'u_{c} = x^{mono}', 'dirichlet_facets': Dfac}

            def bad(what, msg):
                out.violation(sig0 + what, f"{msg} [element {ename}, mesh {name}:{lab}, u_{c} = x^{mono} (+ x0/2 shear), Dirichlet "
                              f"facets {Dfac}]", case=case)
            out.ev()
            try:
                b = fvec.copy()
                if Nfac:
                    fbN = FacetBasis(m, ent.make(), facets=np.array(Nfac, dtype=np.int32))
                    b = b + LinearForm(lambda v, w: sum(sig[i][j].evalf(w.x) * w.n[j] * v[i] for i in range(dim)
                                                        for j in range(dim))).assemble(fbN)
                D, xD = dirichlet_values(m, kind, ent, basis, Dfac, ufun)
                x = xD if len(D) == basis.N else solve(*condense(A, b, x=xD, D=D))
            except Exception as e:
                bad('exception', repr(e))
                continue
            uh = basis.interpolate(x)
            ue = ufun(xq)
            err = np.abs(np.asarray(uh) - ue).max()
            if not np.isfinite(err) or err > 1e-8 * (1 + np.abs(ue).max()):
                bad('solution', f"discrete displacement differs from the polynomial by {err:.3e}")
                continue
            # the solution split into its components (the documented way to look at one displacement component)
            try:
                for ci, (xc_, bc_) in enumerate(basis.split(x)):
                    uc_ = np.asarray(bc_.interpolate(xc_))
                    if np.abs(uc_ - ue[ci]).max() > 1e-8 * (1 + np.abs(ue).max()):
                        bad('split-solution', f"component {ci} of the split solution differs from the polynomial by "
                            f"{np.abs(uc_ - ue[ci]).max():.3e} although the whole vector is exact")
                        break
            except Exception as e:
                bad('split-exception', repr(e))
            if len(D) < basis.N:
                out.nt((name, lab, ename, c, mono, tuple(Dsel)))
            out.outcome((ename, 'elasticity', sum(mono)))
    out.sample({'mesh': f'{name}:{lab}', 'element': ename, 'problem': 'linear elasticity', 'fields': len(fields),
                'splits': len(splits)}, 1)


def projection(name, lab, ename, tier, seed, out):
    from skfem import CellBasis, FacetBasis
    m0 = c10.get_mesh(name, lab, seed, 'quick')
    kind = KIND_OF_CLASS[type(m0).__name__]
    ent = cat.by_name(ename)
    if ent.name in cat.AXIS_ALIGNED_ONLY and lab != 'plain':
        return
    m = mo.with_saturated_tags(m0, sub_full_upto=3)
    sig0 = f"C06|project|{ename}|"
    case0 = {'mesh': f'{name}:{lab}', 'element': ename}

    def bad(what, msg):
        out.violation(sig0 + what, f"{msg} [element {ename}, mesh {name}:{lab}]", case=case0)
    try:
        b = CellBasis(m, ent.make())
    except Exception:
        out.count('basis_unsupported:' + ename)
        return
    N = b.N
    nt = m.t.shape[1]
    regions = [('whole', None)]
    for sn in sorted(m.subdomains)[:3]:
        if 0 < len(m.subdomains[sn]) < nt:
            regions.append((sn, sn))
    kmax = N if N <= 60 else 60
    ks = range(N) if N <= 60 else np.unique(np.linspace(0, N - 1, 60).astype(int))
    for rl, reg in regions:
        try:
            br = b if reg is None else CellBasis(m, ent.make(), elements=reg)
            # the region's DOFs are read off the cell-to-DOF table (decided by C04), not asked from the DOF query that
            # project() itself uses for its condensation - otherwise a query that forgets DOFs hides its own effect
            Dr = np.arange(N) if reg is None else np.unique(b.element_dofs[:, np.asarray(m.subdomains[reg])])
        except Exception as e:
            bad('exception', f"region {rl}: {e!r}")
            continue
        for k in ks:
            if reg is not None and k not in Dr:
                continue
            e = np.zeros(N)
            e[k] = 1.0
            out.ev()
            try:
                y = br.project(br.interpolate(e))
            except Exception as ex_:
                bad('project-exception', f"region {rl}, e_{k}: {ex_!r}")
                break
            if np.abs(y[Dr] - e[Dr]).max() > 1e-8:
                bad('project-identity', f"project(interpolate(e_{k})) on region '{rl}' differs from e_{k} by "
                    f"{np.abs(y[Dr] - e[Dr]).max():.3e}")
                break
            out.nt((name, lab, ename, rl, int(k)))
            if int(k) % 4 == 0:
                # complex coefficient vectors
                ec = e * (1.0 + 2.0j)
                try:
                    yc = br.project(br.interpolate(ec), dtype=np.complex128)
                    if np.abs(np.asarray(yc)[Dr] - ec[Dr]).max() > 1e-8:
                        bad('project-identity-complex', f"complex project(interpolate((1+2j) e_{k})) on region '{rl}' differs by "
                            f"{np.abs(np.asarray(yc)[Dr] - ec[Dr]).max():.3e}")
                        break
                except Exception as ex_:
                    bad('project-complex-exception', f"region {rl}: {ex_!r}")
                    break
    # boundary parts: H1 nodal elements
    if kind != 'wedge' and ent.family == 'H1' and ent.nodal and ent.wrapper is None:
        bfac = [int(j) for j in m.boundary_facets()]
        parts = [('boundary', bfac), ('part', bfac[:max(1, len(bfac) // 2)])]
        for pl, fac in parts:
            try:
                fb = FacetBasis(m, ent.make(), facets=np.array(fac, dtype=np.int32))
                Df = fb.get_dofs(facets=np.array(fac, dtype=np.int32)).flatten()
            except Exception as e:
                bad('exception', f"boundary part {pl}: {e!r}")
                continue
            for k in Df[:40]:
                e = np.zeros(N)
                e[k] = 1.0
                out.ev()
                if int(k) % 3 == 0:
                    ec = e * (1.0 + 2.0j)
                    yc = np.asarray(fb.project(fb.interpolate(ec), dtype=np.complex128))
                    if np.abs(yc[Df] - ec[Df]).max() > 1e-8:
                        bad('boundary-project-identity-complex', f"complex FacetBasis.project on {pl} differs from (1+2j) e_{k} by "
                            f"{np.abs(yc[Df] - ec[Df]).max():.3e}")
                        break
                y = fb.project(fb.interpolate(e))
                if np.abs(y[Df] - e[Df]).max() > 1e-8:
                    bad('boundary-project-identity', f"FacetBasis.project(interpolate(e_{k})) on {pl} differs from e_{k} by "
                        f"{np.abs(y[Df] - e[Df]).max():.3e}")
                    break
                out.nt((name, lab, ename, pl, int(k)))
    out.outcome((ename, lab, N))
    if ename in ('ElementTriP2', 'ElementTetN1', 'ElementQuad2') and lab == 'plain':
        out.sample({'mesh': f'{name}:{lab}', 'element': ename, 'regions': [r[0] for r in regions], 'unit_vectors': int(N)}, 1)
