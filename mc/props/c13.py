"""C13 - adaptive refinement: conforming, domain-preserving for every marked set.

Every ``refined(S)`` edge for ALL marked subsets S (small states) out of every state reachable
by bounded histories of adaptive / uniform steps and raw renumbering deviations, checked with
the exact refinement relation of mc.meshops plus 'every marked cell is subdivided' and
termination of the closure loop (watchdog).
"""
from __future__ import annotations

import itertools
import signal

import numpy as np

from ..report import Out
from .. import meshspace as ms
from .. import meshops as mo
from ..topo import REF

ID = 'C13'
# sub-checks added after the seeded-change waves (DESIGN.md sections 5 and 6)
EXTENSIONS = [
    'marking helper adaptive_theta composed with refined; marked sets named with repeated indices (array and list)',
]
LEVEL = 'model_checking'
TECHNIQUE = "explicit-state BFS over refinement histories; all marked subsets per state; exact transition relation"
LEVEL_TEXT = ("From every line / triangle / tetrahedron seed (first and second order), every history of length <= D over "
              "{raw deviation, refined(), refined(S)} is explored with exact-byte state dedup; in every state EVERY "
              "non-empty marked subset S (all 2^n-1 for n <= 6 cells; singletons, pairs and the full set beyond) is refined "
              "through the real API in index-array and list form, and the exact relation is checked: valid, conforming (no "
              "hanging node: exact point-in-facet/edge tests), old vertices fixed, each child inside one parent with exact "
              "volume sums, every marked cell subdivided, subdomain tags (saturated) == children of tagged parents. A "
              "non-terminating closure loop trips the watchdog and is reported as a violation.")
LEVEL_NOTE = ("Dyadic coordinates (exact midpoints) up to depth 4; bounded mesh size; boundaries are not part of this "
              "property's statement and are not judged here; the tetrahedral algorithm's 1e-10 tie-breaking noise is accepted "
              "as part of the implementation.")
RULE = ("state = mesh bytes; transitions = refined(S) for all S in the bounded family. non-trivial = distinct (state, S) where "
        "S is a proper subset and the mesh has >= 2 cells (the closure must propagate or stop correctly).")
ASSUMPTIONS = [
    "straight-sided meshes with dyadic rational coordinates",
    "marked sets without duplicates; the empty marked set is legal input (expected: same cells)",
    "first-order classes must propagate subdomains; second-order classes may drop them only with a logged warning",
]
BOUNDS = {'quick': {'history_depth': 1, 'all_subsets_upto_cells': 6, 'max_cells_state': 40},
          'thorough': {'history_depth': 2, 'all_subsets_upto_cells': 7, 'max_cells_state': 90}}
ITEM_TIMEOUT = {'quick': 900, 'thorough': 7200}
KINDS = ('line', 'tri', 'tet')
ORDER2 = {'MeshTri1': 'MeshTri2', 'MeshTet1': 'MeshTet2'}
CALL_TIMEOUT = 20


def marked_sets(n, full_upto):
    if n <= full_upto:
        out = []
        for k in range(1, n + 1):
            out += list(itertools.combinations(range(n), k))
        return out
    out = [(i,) for i in range(n)]
    pairs = list(itertools.combinations(range(n), 2))
    if len(pairs) > 45:
        step = len(pairs) / 45
        pairs = [pairs[int(i * step)] for i in range(45)]
    return out + pairs + [tuple(range(n)), tuple(range(0, n, 2))]


def hist_ops(st, bd):
    ops = [('refined()', lambda m: m.refined())]
    n = st.nt
    for S in marked_sets(n, 3)[:12]:
        ops.append((f'refined({list(S)})', (lambda S: lambda m: m.refined(np.array(S, dtype=np.int32)))(S)))
    if st.cls in ORDER2:
        import skfem.mesh as M
        ops.append((f'{ORDER2[st.cls]}.from_mesh', lambda m: getattr(M, ORDER2[st.cls]).from_mesh(m)))
    if st.cls in mo.FIRST_ORDER:
        ops.append(('mirrored(e0)', lambda m: m.mirrored(tuple([1.] + [0.] * (st.p.shape[0] - 1)))))
    return ops


def apply_op(st, label, fn):
    try:
        m = fn(st.build())
    except NotImplementedError:
        return None
    return ms.from_mesh(m, hist=st.hist + (label,), depth=st.depth + 1)


def depth1(st0, tier):
    hs = [('', None)]
    if st0.nt <= (4 if tier == 'quick' else 6):
        for lab, _ in ms.raw_transitions(st0):
            hs.append(('raw', lab))
    for lab, _ in hist_ops(st0, None):
        hs.append(('lib', lab))
    return hs


def items(tier, seed):
    its = []
    for name, st in ms.seeds(seed, kinds=KINDS).items():
        for h in depth1(st, tier):
            its.append((name, h[0], h[1]))
    # the marking helper that produces the marked set in the documented adaptive loop
    for n in (1, 2, 3, 4):
        its.append(('__adaptive_theta__', str(n), ''))
    return its


def cost(item):
    return {'K6': 30, 'K5': 25, 'K3e': 6, 'Tring8': 5, 'Ttensor8': 5, 'TL6': 4}.get(item[0], 1) * (
        3 if item[1] == 'lib' else 1)


def state_of(name, how, lab, seed):
    st0 = ms.seeds(seed)[name]
    if how == '':
        return st0
    if how == 'raw':
        for l, nx in ms.raw_transitions(st0):
            if l == lab:
                return nx
        raise KeyError(lab)
    for l, fn in hist_ops(st0, None):
        if l == lab:
            return apply_op(st0, l, fn)
    raise KeyError(lab)


class _CallTimeout(Exception):
    pass


def work_theta(item, tier, seed, out):
    """m.refined(adaptive_theta(est, theta, max)) for ALL indicator vectors est in {0,1,2,3}^n, theta in {0, 1/2, 1},
    max in {None, 0, 0.0, 1, 3, 5}: the marked set is {i : theta*max < est_i} (max defaults to max(est)), and exactly
    these cells must end up subdivided."""
    import itertools
    from skfem.utils import adaptive_theta
    from skfem import MeshLine
    n = int(item[1])
    m0 = MeshLine(np.array([0.0] + [0.5 * (k + 1) + (0.25 if k % 2 else 0) for k in range(n)]))
    kind = 'line'
    for est_t in itertools.product((0, 1, 2, 3), repeat=n):
        for dt in (float, np.int64):
            est = np.array(est_t, dtype=dt)
            for theta in (0.0, 0.5, 1.0):
                for mx in (None, 0, 0.0, 1, 3, 5):
                    out.ev()
                    M = max(est_t) if mx is None else mx
                    want = [i for i in range(n) if theta * M < est_t[i]]
                    case = {'est': list(est_t), 'dtype': str(np.dtype(dt)), 'theta': theta, 'max': mx}
                    sig0 = "C13|adaptive_theta|"
                    try:
                        kw = {} if mx is None else {'max': mx}
                        got = adaptive_theta(est, theta=theta, **kw)
                    except Exception as e:
                        out.violation(sig0 + 'exception', f"{e!r} for {case}", case=case)
                        continue
                    if not np.array_equal(est, np.array(est_t, dtype=dt)):
                        out.violation(sig0 + 'argument-mutated', f"est changed for {case}", case=case)
                    if sorted(np.asarray(got).tolist()) != want or not np.issubdtype(np.asarray(got).dtype, np.integer):
                        out.violation(sig0 + 'marked-set', f"adaptive_theta({list(est_t)}, theta={theta}, max={mx}) = "
                                      f"{np.asarray(got).tolist()}, expected {{i: theta*max < est_i}} = {want}", case=case)
                        continue
                    if mx is not None and M != max(est_t):
                        out.nt(('theta', est_t, theta, mx))
                    out.outcome(('theta', n, len(want)))
                    if dt is float and theta == 0.5:
                        def bad(what, msg):
                            out.violation(sig0 + 'refined|' + what, f"{msg} [{case}]", case=case)
                        try:
                            with mo.LogCapture() as lc:
                                m1 = m0.refined(got)
                        except Exception as e:
                            bad('exception', repr(e))
                            continue
                        out.transitions += 1
                        mo.check_refinement('C13', kind, m0, m1, lc.records, bad, out, marked=tuple(want), check_boundaries=False)
    out.traces = out.transitions
    return out


def work(item, tier, seed):
    name, how, lab = item
    out = Out()
    out.set_item(item)
    if name == '__adaptive_theta__':
        return work_theta(item, tier, seed, out)
    bd = BOUNDS[tier]
    st1 = state_of(name, how, lab, seed)
    if st1 is None:
        return out

    def expand(st):
        for l, fn in hist_ops(st, bd):
            nx = apply_op(st, l, fn)
            if nx is not None and nx.nt <= bd['max_cells_state']:
                yield (l, nx)

    for evn in ms.bfs([(st1, bd['history_depth'] - 1)], expand, 0):
        if evn[0] == 'edge':
            out.transitions += 1
        elif evn[0] == 'state':
            st = evn[1]
            if st.nt > bd['max_cells_state']:
                continue
            out.states += 1
            check_state(st, bd, out)
    out.traces = out.transitions
    return out


def check_state(st, bd, out, only=None):
    kind = st.kind
    m = st.build()
    try:
        subs, _ = mo.saturate(m)
        m0 = m.with_subdomains(subs)
    except Exception as e:
        out.violation(f"C13|{st.cls}|tagging-exception", repr(e), case=st.describe())
        return
    sets = marked_sets(st.nt, bd['all_subsets_upto_cells']) if only is None else [tuple(only)]
    for idx, S in enumerate(sets):
        forms = [('array', np.array(S, dtype=np.int32))]
        if idx % 7 == 0:
            forms.append(('list', [int(i) for i in S]))
            forms.append(('int64-unsorted', np.array(S[::-1], dtype=np.int64)))
            if len(S) >= 1:
                # the same SET named with repeated indices (e.g. cells collected from a facet-to-cell table)
                rep = list(S) + [S[0]] + list(S[::-1])
                forms.append(('array-repeated', np.array(rep, dtype=np.int32)))
                forms.append(('list-repeated', [int(i) for i in rep]))
        for fname, arg in forms:
            out.ev()
            out.transitions += 1
            sig0 = f"C13|{st.cls}|refined(marked)|"
            case = dict(st.describe(), marked=list(S), form=fname)

            def bad(what, msg):
                out.violation(sig0 + what, f"{msg} [history {list(st.hist)} then refined({list(S)}) as {fname}]", case=case)
            dig = (m0.p.tobytes(), m0.t.tobytes(), repr(mo.tag_sets(m0.subdomains)))
            old = signal.getsignal(signal.SIGALRM)
            remaining = signal.alarm(0)

            def onalarm(sig, frm):
                raise _CallTimeout()
            signal.signal(signal.SIGALRM, onalarm)
            signal.alarm(CALL_TIMEOUT)
            try:
                with mo.LogCapture() as lc:
                    m1 = m0.refined(arg)
            except _CallTimeout:
                bad('nontermination', f"refined(S) did not return within {CALL_TIMEOUT}s")
                continue
            except NotImplementedError:
                out.count('adaptive_not_implemented:' + st.cls)
                return
            except Exception as e:
                bad('exception', repr(e))
                continue
            finally:
                signal.alarm(0)
                signal.signal(signal.SIGALRM, old)
                if remaining:
                    signal.alarm(max(1, remaining))
            if (m0.p.tobytes(), m0.t.tobytes(), repr(mo.tag_sets(m0.subdomains))) != dig:
                bad('operand-mutated', "refined(S) changed its operand")
            if isinstance(arg, np.ndarray) and fname in ('array', 'int64-unsorted') and not np.array_equal(
                    arg, np.array(S if fname == 'array' else S[::-1])):
                bad('argument-mutated', "refined(S) changed the marked index array")
            mo.check_refinement('C13', kind, m0, m1, lc.records, bad, out, marked=S, check_boundaries=False)
            if st.nt >= 2 and len(S) < st.nt:
                out.nt((st.key(), S))
            out.outcome((st.cls, st.nt, int(m1.t.shape[1])))
            if out.evals in (3, 60):
                out.sample({'history': list(st.hist), 'then': f'refined({list(S)})', 'class': st.cls,
                            'cells_before': st.nt, 'cells_after': int(m1.t.shape[1])}, 2)


def replay(rec, tier, seed):
    c = rec['case']
    st = ms.St(c['cls'], np.array(c['p']), np.array(c['t']), kw=c.get('kw') or {}, hist=tuple(c['hist']))
    out = Out()
    check_state(st, BOUNDS['thorough'], out, only=c['marked'])
    return out
