"""C04 - DOF numbering: gap-free, shared exactly along shared entities; locality of matrices.

State invariant on every MeshSpace state x every catalogue element (incl. vector, DG,
composite wrappers), against a numbering-free sharing model computed from ``t`` alone.
"""
from __future__ import annotations

import numpy as np

from ..report import Out
from .. import meshspace as ms
from .. import catalogue as cat
from ..topo import Topo, REF
from .c11 import lib_roots

ID = 'C04'
# sub-checks added after the seeded-change waves (DESIGN.md sections 5 and 6)
EXTENSIONS = [
    'reference-cell pass (each DOF location on its entity), wrapper count rules, composites with unequal counts, explicit-dim vector elements',
    'periodic meshes (topological sharing model), curved second-order twin with an explicit affine mapping, Dofs(offset=), location-table shape',
]
LEVEL = 'model_checking'
TECHNIQUE = "explicit-state BFS over mesh numberings x full element catalogue; invariant vs numbering-free sharing model"
LEVEL_TEXT = ("Every state of MeshSpace (seeds of all cell types, library-made variants, all raw renumbering / cell-order / "
              "local-order deviations within the depth bound) is combined with every exported element class, parametrised "
              "p-elements and vector / DG / composite wrappers with unequal nodal/edge/facet/interior counts. Oracle: local index "
              "-> (entity kind, frozenset of global vertex ids from the reference-cell tables, slot); two (cell, local index) "
              "pairs share a global number IFF the keys are equal; the range is exactly 0..N-1; per-vertex/edge/facet/cell "
              "tables equal the per-cell table gathered through the set topology; DOF locations of a shared DOF coincide from "
              "every cell; assembled matrices (cell, cell-subset, boundary-facet, interior-facet bases, trial != test) have shape "
              "(N_test, N_trial) and a pattern equal to the pairs co-occurring in an integrated cell.")
LEVEL_NOTE = ("Sharing model uses only the element's per-entity DOF counts and the documented local order (vertex, edge, facet, "
              "interior); DOF-location agreement to 1e-12; matrices use an all-ones integrand so every local pair is structurally "
              "nonzero.")
RULE = ("case = (mesh state, element). non-trivial = distinct case in which at least one DOF is shared between two cells (entity "
        "sharing exercised) or, for broken elements, the mesh has >= 2 cells.")
ASSUMPTIONS = ["manifold meshes; ElementGlobal elements whose DOF locations cannot be computed are judged on numbering only",
               "prisms: facet bases unsupported by the library (no boundary reference cell) - counted, not judged"]
BOUNDS = {'quick': {'raw_depth_numbering': '2 if cells<=2, 1 if cells<=8, else 0', 'basis_and_matrix_checks': 'roots + depth 1 on cells<=4'},
          'thorough': {'raw_depth_numbering': '2 if cells<=4 and vertices<=9, 1 if cells<=32, else 0', 'basis_and_matrix_checks': 'all states depth<=1'}}
ITEM_TIMEOUT = {'quick': 900, 'thorough': 7200}


def items(tier, seed):
    its = [('elemref', k) for k in ('line', 'tri', 'quad', 'tet', 'hex', 'wedge')]
    for name, st in ms.seeds(seed).items():
        its.append((name, 0))
        for r in range(len(lib_roots(st))):
            its.append((name, r + 1))
    # periodic meshes made by the library: the sharing model is purely topological and applies unchanged
    for name in ms.periodic_roots(seed):
        its.append((name, 0))
    return its


def cost(item):
    if item[0] == 'elemref':
        return 1
    return {'H4': 9, 'W4': 6, 'H2': 6, 'K6': 5, 'K5': 5, 'Qring8': 3, 'K3e': 3}.get(item[0], 1) + (4 if item[1] == 0 else 0)


def budget(st, tier):
    n = st.nt
    if tier == 'quick':
        return 2 if n <= 2 else 1 if n <= 8 else 0
    return 2 if (n <= 4 and st.nv <= 9) else 1 if n <= 32 else 0


_ENTRIES = {}


def entries(kind):
    if kind not in _ENTRIES:
        _ENTRIES[kind] = cat.entries(kind)
    return _ENTRIES[kind]


def model_keys(T: Topo, kind, elem, dim):
    """Per cell the list of sharing keys in the documented local order."""
    ref = REF[kind]
    nv = ref['nn']
    n_nodal = elem.nodal_dofs
    n_edge = elem.edge_dofs if (dim == 3 and getattr(elem, 'edge_dofs', 0) > 0) else 0
    n_facet = elem.facet_dofs if (dim >= 2 and elem.facet_dofs > 0) else 0
    n_int = elem.interior_dofs
    keys = []
    for c, cell in enumerate(T.cells):
        ks = []
        for v in range(nv):
            for s in range(n_nodal):
                ks.append(('v', cell[v], s))
        if n_edge:
            for k, e in enumerate(T.cell_edges[c]):
                for s in range(n_edge):
                    ks.append(('e', e, s))
        if n_facet:
            for k, f in enumerate(T.cell_facets[c]):
                for s in range(n_facet):
                    ks.append(('f', f, s))
        for s in range(n_int):
            ks.append(('i', c, s))
        keys.append(ks)
    return keys


def on_ref_entity(kind, l_key, X, tol=1e-12):
    """Reference location X of a local DOF lies on the reference entity it is attached to."""
    from skfem import refdom as rd
    R = {'line': rd.RefLine, 'tri': rd.RefTri, 'quad': rd.RefQuad, 'tet': rd.RefTet, 'hex': rd.RefHex,
         'wedge': rd.RefWedge}[kind]
    P = R.p
    what, idx = l_key
    X = np.asarray(X, dtype=float)
    if what == 'v':
        return np.abs(P[:, idx] - X).max() <= tol
    if what == 'i':
        verts = list(range(P.shape[1]))
    else:
        verts = list(idx)
    Q = P[:, verts]
    # X in the convex hull of the entity's vertices (entities of reference cells are convex polytopes):
    # least squares for convex weights is overkill; use a linear-programming-free test: the affine hull
    # contains X and X lies inside the bounding box and on the same side of every facet of the cell
    A = np.vstack((Q, np.ones(Q.shape[1])))
    lam, res, rk, sv = np.linalg.lstsq(A, np.append(X, 1.0), rcond=None)
    if np.abs(A @ lam - np.append(X, 1.0)).max() > 1e-10:
        return False
    from .. import exact as ex
    return bool(ex.in_closed_ref(kind, X[:, None], tol=1e-10)[0])


def work_elemref(kind, out):
    ref = REF[kind]
    for ent in entries(kind):
        if ent.family == 'unclassified':
            continue
        elem = ent.make()
        # wrappers: per-entity counts follow from the components (independent of the wrapper's arithmetic)
        if ent.wrapper is not None:
            cnt = lambda e: np.array([e.nodal_dofs, getattr(e, 'edge_dofs', 0), e.facet_dofs, e.interior_dofs])  # noqa: E731
            got = cnt(elem)
            if ent.wrapper == 'vector':
                want = cnt(elem.elem) * elem.dim
            elif ent.wrapper == 'composite':
                want = sum(cnt(e) for e in elem.elems)
            else:
                inner = elem.elem
                r = REF[kind]
                want = np.array([0, 0, 0, inner.nodal_dofs * r['nn']
                                 + (getattr(inner, 'edge_dofs', 0) * len(r['edges']) if r['edges'] and r['dim'] == 3 else 0)
                                 + (inner.facet_dofs * len(r['facets']) if r['dim'] >= 2 else 0) + inner.interior_dofs])
            out.ev()
            if not np.array_equal(got, want):
                out.violation(f"C04|{ent.name}|reference|wrapper-counts", f"(nodal, edge, facet, interior) DOF counts {got.tolist()} "
                              f"but the components give {want.tolist()}", case={'element': ent.name})
                continue
        dl = getattr(elem, 'doflocs', None)
        if dl is None:
            continue
        out.ev()
        dim = ref['dim']
        lk = []
        for v in range(ref['nn']):
            lk += [('v', v)] * elem.nodal_dofs
        if dim == 3 and getattr(elem, 'edge_dofs', 0) > 0:
            for e in ref['edges']:
                lk += [('e', tuple(e))] * elem.edge_dofs
        if dim >= 2 and elem.facet_dofs > 0:
            for f in ref['facets']:
                lk += [('f', tuple(f))] * elem.facet_dofs
        lk += [('i', None)] * elem.interior_dofs
        if dl.shape[0] != len(lk):
            out.violation(f"C04|{ent.name}|reference|doflocs-count", f"{dl.shape[0]} DOF locations for {len(lk)} local DOFs",
                          case={'element': ent.name})
            continue
        for l, key in enumerate(lk):
            if np.isnan(dl[l]).all():
                out.count('dofloc_declared_nan')      # hierarchical / bubble DOFs declare no location
                continue
            if not on_ref_entity(kind, key, dl[l]):
                out.violation(f"C04|{ent.name}|reference|dofloc-off-entity",
                              f"local DOF {l} is attached to {key} of the reference cell but its location {dl[l].tolist()} "
                              f"does not lie on it", case={'element': ent.name, 'local': l})
                break
        out.nt(('elemref', ent.name))
        out.outcome(('elemref', ent.name, len(lk)))
    out.states += 1
    out.transitions += 1


def work(item, tier, seed):
    out = Out()
    out.set_item(item)
    if item[0] == 'elemref':
        work_elemref(item[1], out)
        return out
    name, r = item
    periodic = name.startswith('P:')
    st0 = ms.periodic_roots(seed)[name] if periodic else ms.seeds(seed)[name]
    root = st0 if r == 0 else lib_roots(st0)[r - 1]
    n = 0
    for evn in ms.bfs([(root, 0 if periodic else budget(root, tier))], ms.raw_transitions, 0):
        if evn[0] == 'edge':
            out.transitions += 1
            continue
        if evn[0] != 'state':
            continue
        st = evn[1]
        out.states += 1
        n += 1
        depth = len(st.hist) - len(root.hist)
        deep = (depth == 0) or (depth == 1 and st.p.shape[0] < 3 and (tier == 'thorough' or st.nt <= 2))
        # at depth 1 in the quick tier: only every raw step kind once per cell/vertex is needed for the
        # heavy part; keep all (states are small)
        check_state(st, out, deep, n)
    out.traces = out.transitions
    return out


def check_state(st, out, deep, n=0, only=None):
    m = st.build()
    kind = st.kind
    dim = REF[kind]['dim']
    T = Topo(kind, m.t)
    if any(len(cs) > 2 for cs in T.facet_cells.values()):
        return
    if kind == 'wedge':
        fs = [frozenset(int(v) for v in col) for col in m.facets.T]
        if len(set(fs)) != len(fs):
            out.count('wedge_states_skipped_duplicate_facets(C11 finding)')
            return
    from skfem.assembly import Dofs
    for ent in entries(kind):
        if only is not None and ent.name != only:
            continue
        if ent.family == 'unclassified' and ent.kind is None:
            out.count('unclassified:' + ent.name)
            continue
        elem = ent.make()
        out.ev()
        sig0 = f"C04|{ent.name}|{st.cls}|"
        case = dict(st.describe(), element=ent.name)

        def bad(what, msg):
            out.violation(sig0 + what, f"{msg} [element {ent.name}, history {list(st.hist)}]", case=case)
        try:
            dofs = Dofs(m, elem)
        except Exception as e:
            bad('exception', repr(e))
            continue
        keys = model_keys(T, kind, elem, dim)
        ed = dofs.element_dofs
        if ed.shape != (len(keys[0]), T.nt):
            bad('element_dofs-shape', f"element_dofs shape {ed.shape}, model has {len(keys[0])} local DOFs")
            continue
        k2d, d2k = {}, {}
        ok = True
        for c in range(T.nt):
            for l, key in enumerate(keys[c]):
                d = int(ed[l, c])
                if k2d.setdefault(key, d) != d:
                    bad('shared-entity-different-number', f"entity key {key} has numbers {k2d[key]} and {d}")
                    ok = False
                    break
                if d2k.setdefault(d, key) != key:
                    bad('number-shared-without-entity', f"DOF {d} is referenced for {d2k[d]} and for {key}")
                    ok = False
                    break
            if not ok:
                break
        if not ok:
            continue
        N = int(dofs.N)
        if sorted(d2k) != list(range(N)):
            bad('not-gap-free', f"numbers used {sorted(d2k)[:6]}..(count {len(d2k)}) but N={N}")
            continue
        # per-entity tables
        nod = dofs.nodal_dofs
        tv = int(m.t.max()) + 1
        if elem.nodal_dofs and (nod.shape != (elem.nodal_dofs, tv)
                                or any(k2d.get(('v', v, s)) != int(nod[s, v]) for v in T.vertices
                                       for s in range(elem.nodal_dofs))):
            bad('nodal_dofs-table', "nodal_dofs[s, v] differs from the per-cell numbering")
        if dim == 3 and getattr(elem, 'edge_dofs', 0) > 0:
            edg = m.edges
            if any(k2d.get(('e', frozenset(int(x) for x in edg[:, j]), s)) != int(dofs.edge_dofs[s, j])
                   for j in range(edg.shape[1]) for s in range(elem.edge_dofs)):
                bad('edge_dofs-table', "edge_dofs[s, j] differs from the per-cell numbering")
        if dim >= 2 and elem.facet_dofs > 0:
            fac = m.facets
            if any(k2d.get(('f', frozenset(int(x) for x in fac[:, j]), s)) != int(dofs.facet_dofs[s, j])
                   for j in range(fac.shape[1]) for s in range(elem.facet_dofs)):
                bad('facet_dofs-table', "facet_dofs[s, j] differs from the per-cell numbering")
        if elem.interior_dofs and any(k2d.get(('i', c, s)) != int(dofs.interior_dofs[s, c])
                                      for c in range(T.nt) for s in range(elem.interior_dofs)):
            bad('interior_dofs-table', "interior_dofs[s, c] differs from the per-cell numbering")
        # the optional start number shifts the whole numbering (composite numberings are built from it)
        if n <= 2:
            try:
                d7 = Dofs(m, ent.make(), offset=7)
                if not np.array_equal(d7.element_dofs, ed + 7):
                    bad('offset', "Dofs(mesh, elem, offset=7).element_dofs is not the default numbering shifted by 7")
            except TypeError:
                pass
            except Exception as e:
                bad('offset-exception', repr(e))
        shared = any(True for key in k2d if key[0] != 'i') and T.nt >= 2
        if shared or (T.nt >= 2):
            out.nt((st.key(), ent.name))
        out.outcome((ent.name, N))
        if deep:
            deep_checks(st, m, T, ent, elem, keys, ed, N, bad, out)
        if n == 1 and ent.name in ('ElementTriP2', 'ElementTetCCR', 'ElementQuad2'):
            out.sample({'history': list(st.hist), 'element': ent.name, 'N': N, 'cells': st.nt}, 3)


def deep_checks(st, m, T, ent, elem, keys, ed, N, bad, out):
    import warnings
    from skfem import CellBasis, FacetBasis, InteriorFacetBasis, BilinearForm
    kind = st.kind
    with warnings.catch_warnings():
        warnings.simplefilter('ignore')
        try:
            b = CellBasis(m, ent.make(), intorder=1)
        except Exception as e:
            if st.cls.endswith('DG') and ent.family in ('C1', 'Morley', 'P15', 'Hermite') or (st.cls.endswith('DG') and 'Global' in str(type(ent.make()).__mro__)):
                out.count('global_element_on_periodic_mesh_unsupported:' + ent.name)   # loud limitation of the library
                return
            bad('basis-exception', repr(e))
            return
    if b.N != N or not np.array_equal(b.element_dofs, ed):
        bad('basis-vs-dofs', "Basis.N/element_dofs differ from Dofs")
        return
    # DOF locations: the same mapped point from every cell that references the DOF
    dl = getattr(b, 'doflocs', None)
    dl_ok = True
    if st.cls.endswith('DG'):
        dl = None       # an identified DOF has two geometric locations: the location table is not single-valued by design
    if dl is not None:
        try:
            loc = b.mapping.F(b.elem.doflocs.T)       # (dim, nt, Nbfun)
        except Exception:
            loc = None
        if loc is not None and loc.shape[2] == ed.shape[0] and (dl.shape[0] != loc.shape[0] or dl.shape[1] != N):
            bad('doflocs-shape', f"the DOF location table has shape {dl.shape}; the mapping returns {loc.shape[0]} coordinates per point and "
                f"the basis has N = {N} DOFs")
            dl_ok = False
        elif loc is not None and loc.shape[2] == ed.shape[0]:
            for l in range(ed.shape[0]):
                d = np.abs(dl[:, ed[l]] - loc[:, :, l]).max()
                if d > 1e-12:
                    c = int(np.abs(dl[:, ed[l]] - loc[:, :, l]).max(axis=0).argmax())
                    bad('doflocs-disagree', f"DOF {int(ed[l, c])}: location table says {dl[:, ed[l, c]].tolist()} but cell "
                        f"{c} maps its local DOF {l} to {loc[:, c, l].tolist()}")
                    dl_ok = False
                    break
    # an explicitly passed mapping whose geometry differs from the mesh's default one (affine mapping on the curved
    # second-order twin): the location table follows the basis' own mapping
    if dl_ok and st.cls in ('MeshTri1', 'MeshTet1') and ent.wrapper in (None, 'vector', 'dg') and len(st.hist) == 1:
        # (only where the table is single-valued with the default mapping: otherwise that defect is reported above)
        try:
            import skfem
            from skfem.mapping import MappingAffine
            from dataclasses import replace as _replace
            m2 = getattr(skfem, {'MeshTri1': 'MeshTri2', 'MeshTet1': 'MeshTet2'}[st.cls]).from_mesh(m)
            p2 = m2.doflocs.copy()
            nv_ = int(m2.t.max()) + 1
            for k_ in range(nv_, p2.shape[1]):
                p2[:, k_] += np.array([1 / 32, -1 / 64, 1 / 64][:p2.shape[0]]) * (1 if k_ % 2 else -.5)
            m2 = _replace(m2, doflocs=p2)
            mpa = MappingAffine(m2)
            with warnings.catch_warnings():
                warnings.simplefilter('ignore')
                b2 = CellBasis(m2, ent.make(), mapping=mpa, intorder=1)
            dl2 = getattr(b2, 'doflocs', None)
            if dl2 is not None:
                loc2 = mpa.F(b2.elem.doflocs.T)
                if loc2.shape[2] == b2.element_dofs.shape[0]:
                    out.ev()
                    for l in range(b2.element_dofs.shape[0]):
                        d = np.abs(dl2[:, b2.element_dofs[l]] - loc2[:, :, l])
                        if np.isfinite(d).any() and np.nanmax(d) > 1e-12:
                            bad('doflocs-explicit-mapping', f"CellBasis(curved {type(m2).__name__}, mapping=MappingAffine): the DOF location "
                                f"table differs from the basis' own mapping applied to the reference locations by {np.nanmax(d):.3e} "
                                f"(local DOF {l})")
                            break
        except NotImplementedError:
            pass
        except Exception as e:
            out.count(f'explicit_mapping_variant_unsupported:{ent.name}:{type(e).__name__}')
    # matrices: shape and pattern == co-occurrence in integrated cells
    ones = BilinearForm(lambda *a: 1.0 + 0. * a[-1].x[0])

    def cooc(cells, edr, edc):
        return {(int(edr[i, c]), int(edc[j, c])) for c in cells for i in range(edr.shape[0]) for j in range(edc.shape[0])}

    def pat(A):
        A = A.tocoo()
        return {(int(i), int(j)) for i, j, v in zip(A.row, A.col, A.data) if v != 0}
    try:
        A = ones.assemble(b)
        if A.shape != (N, N) or pat(A) != cooc(range(T.nt), ed, ed):
            bad('matrix-pattern-cells', f"shape {A.shape} or pattern differs from co-occurrence over all cells")
        if T.nt >= 2:
            S = np.array([T.nt - 1], dtype=np.int32)
            with warnings.catch_warnings():
                warnings.simplefilter('ignore')
                bs = CellBasis(m, ent.make(), elements=S, intorder=1)
            A = ones.assemble(bs)
            if A.shape != (N, N) or pat(A) != cooc([T.nt - 1], ed, ed):
                bad('matrix-pattern-subset', "pattern of a cell-subset basis differs from co-occurrence in that cell")
        # rectangular: trial = this element, test = P0-like companion (first entry of same kind that is L2 nodal)
        comp = next((e for e in cat.entries(kind, wrappers=False) if e.family == 'L2' and e.deg == 0 and e.nodal), None)
        if comp is not None and ent.wrapper is None:
            with warnings.catch_warnings():
                warnings.simplefilter('ignore')
                bt = CellBasis(m, comp.make(), intorder=1)
            A = ones.assemble(b, bt)
            if A.shape != (bt.N, N) or pat(A) != cooc(range(T.nt), bt.element_dofs, ed):
                bad('matrix-rectangular', f"trial/test matrix shape {A.shape} expected {(bt.N, N)} or pattern differs "
                    f"(rows must index test DOFs)")
        if kind != 'wedge' and ent.wrapper in (None, 'vector') and ent.family != 'unclassified':
            with warnings.catch_warnings():
                warnings.simplefilter('ignore')
                try:
                    fb = FacetBasis(m, ent.make(), intorder=1)
                except Exception:
                    # loud limitation (e.g. ElementTriN3 cannot be evaluated on facets): counted
                    out.count('facet_basis_unsupported:' + ent.name)
                    return
            A = ones.assemble(fb)
            cells = sorted({int(c) for c in fb.tind})
            if A.shape != (N, N) or pat(A) != cooc(cells, ed, ed):
                bad('matrix-pattern-boundary', "pattern of the boundary-facet matrix differs from co-occurrence in the "
                    "cells adjacent to boundary facets")
            if len(T.interior_facets()) > 0:
                for side in (0, 1):
                    with warnings.catch_warnings():
                        warnings.simplefilter('ignore')
                        ib = InteriorFacetBasis(m, ent.make(), side=side, intorder=1)
                    A = ones.assemble(ib)
                    cells = sorted({int(c) for c in ib.tind})
                    if A.shape != (N, N) or pat(A) != cooc(cells, ed, ed):
                        bad('matrix-pattern-interior', f"pattern of the interior-facet matrix (side {side}) differs")
        elif kind == 'wedge':
            out.count('prism_facet_bases_unsupported')
    except NotImplementedError as e:
        out.count('not_implemented:' + ent.name)
    except Exception as e:
        bad('assembly-exception', repr(e))


def replay(rec, tier, seed):
    c = rec['case']
    st = ms.St(c['cls'], np.array(c['p']), np.array(c['t']), kw=c.get('kw') or {}, hist=tuple(c['hist']))
    out = Out()
    check_state(st, out, True, only=c['element'])
    return out
