"""C11 - derived mesh connectivity is coherent with the cell list.

State invariant evaluated on every reachable state of MeshSpace (raw renumbering /
cell-order / local-order deviations from every seed, plus library-made states), against a
set-based topology computed from ``t`` alone.
"""
from __future__ import annotations

import numpy as np

from ..report import Out
from .. import meshspace as ms
from ..topo import Topo, REF

ID = 'C11'
# sub-checks added after the seeded-change waves (DESIGN.md sections 5 and 6)
EXTENSIONS = [
    'second-order twins; relabelled prism extrusions; periodic meshes; meshes from the named constructors (init_*); node partition over every node',
]
LEVEL = 'model_checking'
TECHNIQUE = "explicit-state BFS over mesh numberings (deviation-bounded) with a state invariant vs a set model"
LEVEL_TEXT = ("Explicit-state exploration: states are meshes reachable from 25 irregular seeds of all 6 cell types by "
              "<= k raw deviations (vertex transposition, cell transposition, admissible local vertex order step) and "
              "by library operations (refined, restrict, splits, extrusion); every state is deduplicated on its exact "
              "(class, p, t) bytes and the full connectivity invariant is evaluated on the real mesh object in each. "
              "All states within the bound are covered, so a numbering-dependent defect in a table needs > k "
              "simultaneous deviations or a larger patch to escape.")
LEVEL_NOTE = ("Reference-cell facet/edge tables are copied from the documentation and cross-checked against skfem.refdom "
              "at start; manifold meshes only (<= 2 cells per facet); f2e/boundary_edges only where the library defines "
              "them (3-D); bounded mesh size.")
RULE = ("state = (class, p bytes, t bytes); roots = seeds(VERIF_SEED) + library-made variants; transitions = raw "
        "deviations; depth bound per tier. non-trivial = distinct state having at least one interior facet (two "
        "neighbours), i.e. the first/last-occurrence logic and shared-entity numbering are exercised.")
ASSUMPTIONS = [
    "meshes are manifold (each facet in at most two cells)",
    "periodic Mesh*DG classes are outside MeshSpace",
    "boundary_edges/interior_edges/f2e are evaluated on 3-D classes only (prisms: no f2e since no boundary element)",
]
BOUNDS = {'quick': {'raw_depth': '2 if cells<=4 and vertices<=12, 1 if cells<=16, else 0 (state itself only)'},
          'thorough': {'raw_depth': '3 if cells<=2, 2 if cells<=8 and vertices<=18, 1 if cells<=64, else 0'}}
ITEM_TIMEOUT = {'quick': 900, 'thorough': 7200}


def items(tier, seed):
    its = []
    for name, st in ms.seeds(seed).items():
        its.append((name, 0))
        for r in range(len(lib_roots(st))):
            its.append((name, r + 1))
    # periodic meshes made by the library: only the state itself (p is not vertex-indexed, so raw relabelling does not apply)
    for name in ms.periodic_roots(seed):
        its.append((name, 0))
    # meshes made by the library's named constructors (budget by size as for seeds)
    for name in ms.init_roots(seed):
        its.append((name, 0))
    return its


def budget(st, tier):
    """Raw-deviation depth allowed from a root, by size (keeps the state count bounded)."""
    n = st.nt
    if tier == 'quick':
        return 2 if (n <= 4 and st.nv <= 12) else 1 if n <= 16 else 0
    return 3 if n <= 2 else 2 if (n <= 8 and st.nv <= 18) else 1 if n <= 64 else 0


def cost(item):
    return {'H4': 9, 'W4': 8, 'H2': 7, 'K6': 3, 'K5': 3, 'Qring8': 3}.get(item[0], 1) + (5 if item[1] == 0 else 0)


def lib_roots(st):
    """States produced by real library operations from the seed (invariant must hold there too)."""
    out = []
    m = st.build()

    def snap(mm, op):
        try:
            out.append(ms.from_mesh(mm, hist=st.hist + (op,), depth=0))
        except Exception:
            pass
    try:
        snap(m.refined(), 'refined()')
    except NotImplementedError:
        pass
    if st.nt >= 2:
        snap(m.restrict(np.arange(0, st.nt, 2)), 'restrict(even)')
        snap(m.remove_elements(np.array([0])), 'remove_elements([0])')
    if st.kind == 'quad':
        snap(m.to_meshtri(), 'to_meshtri()')
        snap(m.to_meshtri(style='x'), "to_meshtri(style='x')")
    if st.kind in ('hex', 'wedge'):
        snap(m.to_meshtet(), 'to_meshtet()')
    if st.kind in ('line', 'tri', 'tet') and st.nt >= 2:
        snap(m.refined(np.array([0])), 'refined([0])')
        snap(m.refined(np.array([st.nt - 1])).refined(np.array([0, 1])), 'refined([last]).refined([0,1])')
    if st.kind == 'tri' and st.nt <= 4:
        from skfem import MeshLine
        snap(m * MeshLine(np.array([0, 1, 2.5])), '*MeshLine')
        # a single layer (caps are never shared, so every local rotation of a prism is a legal state) and the
        # extrusions of the relabelled triangle meshes in which vertex v carries the lowest label, i.e. is the
        # first local vertex of every prism cap it belongs to
        snap(m * MeshLine(np.array([0, 1.5])), '*MeshLine(1 layer)')
        for v in range(1, st.nv):
            perm = np.arange(st.nv)
            perm[[0, v]] = [v, 0]
            inv = np.argsort(perm)
            mv = type(m)(m.p[:, perm], inv[m.t])
            snap(mv * MeshLine(np.array([0, 1, 2.5])), f'relabel(0<->{v})*MeshLine')
    if st.kind == 'line':
        from skfem import MeshLine
        snap(m * MeshLine(np.array([0, .5, 2.])), '*MeshLine')
    snap(m.mirrored(tuple([1] + [0] * (st.p.shape[0] - 1))), 'mirrored')
    return out


def work(item, tier, seed):
    name, r = item
    out = Out()
    out.set_item(item)
    periodic = name.startswith('P:')
    st0 = (ms.periodic_roots(seed)[name] if periodic else ms.init_roots(seed)[name] if name.startswith('I:')
           else ms.seeds(seed)[name])
    root = st0 if r == 0 else lib_roots(st0)[r - 1]
    nstates = 0
    for evn in ms.bfs([(root, 0 if periodic else budget(root, tier))], ms.raw_transitions, 0):
        if evn[0] == 'edge':
            out.transitions += 1
            continue
        if evn[0] == 'cut':
            out.cap('state cap')
            continue
        st = evn[1]
        nstates += 1
        out.states += 1
        out.ev()
        try:
            check_state(st, out)
        except Exception as e:  # the library raising on a valid mesh is a finding of its own kind
            out.violation(f"C11|{st.cls}|exception|{type(e).__name__}", f"{e!r} on state {st.hist}",
                          case=st.describe())
        if nstates in (1, 40):
            out.sample({'history': list(st.hist), 'class': st.cls, 'cells': st.nt, 'vertices': st.nv}, 2)
    out.traces = out.transitions
    return out


ORDER2 = {'MeshTri1': 'MeshTri2', 'MeshQuad1': 'MeshQuad2', 'MeshTet1': 'MeshTet2', 'MeshHex1': 'MeshHex2'}


def check_state(st, out):
    m = st.build()
    ok = check_mesh(st, m, st.cls, out)
    if ok and st.cls in ORDER2:
        # the second-order class of the same cell list: extra geometry nodes, identical connectivity claims
        import skfem
        try:
            m2 = getattr(skfem, ORDER2[st.cls]).from_mesh(m)
        except Exception as e:
            out.violation(f"C11|{ORDER2[st.cls]}|from_mesh-exception", f"{e!r} [history {list(st.hist)}]", case=st.describe())
            return
        if not np.array_equal(m2.t, m.t):
            out.count('order2_twin_renumbered')
            return
        check_mesh(st, m2, ORDER2[st.cls], out)
        out.count('order2_twins_checked')


def check_mesh(st, m, cls, out):
    kind = st.kind
    T = Topo(kind, m.t)           # model from the mesh's own cell list (after constructor normalisation)
    ref = REF[kind]

    def bad(what, msg):
        out.violation(f"C11|{cls}|{what}", f"{msg} [history {list(st.hist)}]", case=st.describe())

    # 1. facets: each once, same set
    facets = m.facets
    fsets = [frozenset(int(v) for v in facets[:, j]) for j in range(facets.shape[1])]
    if len(set(fsets)) != len(fsets):
        cause = ''
        if kind == 'wedge':
            # prisms encode a triangular cap as (a, b, c, a); two cells that list a shared cap
            # starting from different vertices repeat different vertices
            rep = {}
            for c, cell in enumerate(T.cells):
                for f in ((0, 1, 2), (3, 4, 5)):
                    rep.setdefault(frozenset(cell[i] for i in f), set()).add(cell[f[0]])
            dupf = {f for f in set(fsets) if fsets.count(f) > 1}
            if dupf and all(len(rep.get(f, ())) > 1 for f in dupf):
                cause = '|shared-cap-listed-from-different-vertex'
        bad('facets-duplicate' + cause, "a facet appears twice in mesh.facets")
        return False
    if set(fsets) != set(T.facet_cells):
        bad('facets-set', f"mesh.facets differ from the facets spanned by cells: extra "
            f"{sorted(map(sorted, set(fsets) - set(T.facet_cells)))[:3]} missing "
            f"{sorted(map(sorted, set(T.facet_cells) - set(fsets)))[:3]}")
        return False
    if any(len(cs) > 2 for cs in T.facet_cells.values()):
        out.count('nonmanifold_states_skipped')
        return False
    # 2. t2f slot-exact
    t2f = m.t2f
    if t2f.shape != (len(ref['facets']), T.nt):
        bad('t2f-shape', f"t2f shape {t2f.shape}")
        return False
    for c in range(T.nt):
        for k in range(t2f.shape[0]):
            if fsets[t2f[k, c]] != T.cell_facets[c][k]:
                bad('t2f-slot', f"t2f[{k},{c}] names facet {sorted(fsets[t2f[k, c]])} but local facet {k} of cell "
                    f"{c} spans {sorted(T.cell_facets[c][k])}")
                return False
    # hexahedra / prisms: facet columns keep a cyclic vertex order (consecutive entries are edges)
    if kind == 'hex':
        for j in range(facets.shape[1]):
            col = [int(v) for v in facets[:, j]]
            if len(set(col)) == 4:
                for i in range(4):
                    e = frozenset((col[i], col[(i + 1) % 4]))
                    if e not in T.edge_cells:
                        bad('facets-cyclic-order', f"facet column {col} is not a cyclic walk along edges")
                        return False
    # 3. edges, t2e
    if ref['edges'] is not None:
        edges = m.edges
        esets = [frozenset(int(v) for v in edges[:, j]) for j in range(edges.shape[1])]
        if len(set(esets)) != len(esets):
            bad('edges-duplicate', "an edge appears twice")
        if set(esets) != set(T.edge_cells):
            bad('edges-set', "mesh.edges differ from the edges spanned by cells")
            return False
        t2e = m.t2e
        for c in range(T.nt):
            for k in range(t2e.shape[0]):
                if esets[t2e[k, c]] != T.cell_edges[c][k]:
                    bad('t2e-slot', f"t2e[{k},{c}] names edge {sorted(esets[t2e[k, c]])} but local edge {k} of "
                        f"cell {c} spans {sorted(T.cell_edges[c][k])}")
                    return False
    else:
        if m.edges is not None and kind != 'line' and False:
            pass
    # 4. f2t
    f2t = m.f2t
    if f2t.shape != (2, len(fsets)):
        bad('f2t-shape', f"f2t shape {f2t.shape}")
        return False
    for j, f in enumerate(fsets):
        want = set(T.facet_cells[f])
        got = [int(f2t[0, j]), int(f2t[1, j])]
        if got[0] == -1 or got[0] == got[1]:
            bad('f2t-first', f"f2t[:, {j}] = {got}")
            return False
        if set(g for g in got if g != -1) != want or (len(want) == 1) != (got[1] == -1):
            bad('f2t-neighbours', f"f2t[:, {j}] = {got} but facet {sorted(f)} lies in cells {sorted(want)}")
            return False
    # 5. boundary / interior partitions
    bf = set(int(j) for j in m.boundary_facets())
    wantbf = {j for j, f in enumerate(fsets) if len(T.facet_cells[f]) == 1}
    if bf != wantbf:
        bad('boundary_facets', f"boundary_facets() = {sorted(bf)[:8]}.. expected {sorted(wantbf)[:8]}..")
    bn = set(int(v) for v in m.boundary_nodes())
    inn = set(int(v) for v in m.interior_nodes())
    wantbn = T.boundary_vertices()
    if bn != wantbn:
        bad('boundary_nodes', f"boundary_nodes() = {sorted(bn)} expected {sorted(wantbn)}")
    allv = set(range(m.p.shape[1]))    # every node (second-order classes: the geometry nodes too are in exactly one set)
    if (bn | inn) != allv or (bn & inn):
        bad('nodes-partition', "boundary_nodes and interior_nodes do not partition the vertices")
    if ref['edges'] is not None:
        wantbe = T.boundary_edges()
        try:
            be = set(int(j) for j in m.boundary_edges())
            ie = set(int(j) for j in m.interior_edges())
        except Exception as e:
            bad('boundary_edges-exception', repr(e))
            be = ie = None
        if be is not None:
            got = {esets[j] for j in be}
            if got != wantbe:
                bad('boundary_edges', f"boundary_edges() returns {len(got)} edges, the set model has "
                    f"{len(wantbe)}; e.g. missing {sorted(map(sorted, wantbe - got))[:2]} extra "
                    f"{sorted(map(sorted, got - wantbe))[:2]}")
            if (be | ie) != set(range(len(esets))) or (be & ie):
                bad('edges-partition', "boundary_edges and interior_edges do not partition the edges")
        # 6. f2e
        if m.bndelem is not None:
            f2e = m.f2e
            for j in range(facets.shape[1]):
                col = tuple(int(v) for v in facets[:, j])
                want = T.facet_edges(col)
                for k in range(f2e.shape[0]):
                    if esets[f2e[k, j]] != want[k]:
                        bad('f2e-slot', f"f2e[{k},{j}] names edge {sorted(esets[f2e[k, j]])}, facet {col} local "
                            f"edge {k} is {sorted(want[k])}")
                        return False
    # 7. incidence matrices
    nvert = int(m.t.max()) + 1

    def pattern(M):
        M = M.tocoo()
        return {(int(i), int(j)) for i, j, v in zip(M.row, M.col, M.data) if v != 0}
    if pattern(m.p2t) != {(c, v) for c, cell in enumerate(T.cells) for v in cell}:
        bad('p2t', "p2t pattern differs from cell-vertex incidence")
    if pattern(m.p2f) != {(j, v) for j, f in enumerate(fsets) for v in f}:
        bad('p2f', "p2f pattern differs from facet-vertex incidence")
    if m.p2t.shape != (T.nt, nvert) or m.p2f.shape != (len(fsets), nvert):
        bad('incidence-shape', f"p2t {m.p2t.shape} p2f {m.p2f.shape}")
    if ref['edges'] is not None:
        if pattern(m.p2e) != {(j, v) for j, e in enumerate(esets) for v in e}:
            bad('p2e', "p2e pattern differs from edge-vertex incidence")
        want = {(c, j) for j, e in enumerate(esets) for c in range(T.nt) if e <= set(T.cells[c])}
        if pattern(m.e2t) != want:
            bad('e2t', "e2t pattern differs from 'cell contains both end points'")
    # vacuity accounting
    nint = sum(1 for f in fsets if len(T.facet_cells[f]) == 2)
    if nint > 0:
        out.nt(st.key())
    out.outcome((cls, len(fsets), len(wantbf), nint))
    return True


def replay(rec, tier, seed):
    """Re-evaluate the invariant on the recorded state only (no exploration)."""
    c = rec['case']
    st = ms.St(c['cls'], np.array(c['p']), np.array(c['t']), kw=c.get('kw') or {}, hist=tuple(c['hist']))
    out = Out()
    check_state(st, out)
    return out
