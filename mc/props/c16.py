"""C16 - threaded assembly equals serial assembly under every schedule.

Stateless schedule exploration of the real worker threads of BilinearForm under the baton
scheduler of mc.sched: all interleavings at kernel granularity (where enumerable), and
preemption-bounded exploration at source-line granularity inside the worker functions.
"""
from __future__ import annotations

import collections
import hashlib
import math

import numpy as np

from ..report import Out
from .. import sched as S

ID = 'C16'
# sub-checks added after the seeded-change waves (DESIGN.md sections 5 and 6)
EXTENSIONS = [
    'kernel order logged at execution; kernel+main mode (starting thread scheduled at Thread.start()); complex-valued and reused-form configurations; thorough tier sharded with count check',
]
LEVEL = 'model_checking'
TECHNIQUE = "stateless schedule enumeration of the real worker threads under a controlled (baton) scheduler"
LEVEL_TEXT = ("Every execution is the real BilinearForm._assemble with real threading.Thread workers; the module-level "
              "Thread name is replaced by a baton-controlled subclass so exactly one worker runs at a time and the driver "
              "decides who runs at every yield point. Kernel granularity (yield before each integrand call): ALL "
              "interleavings for every (Nu, Nv) in {1,2,3}^2 and every thread count 1..Nu*Nv+2 whose interleaving count is "
              "below the cap, deviation-bounded otherwise; line granularity (yield at every source line of "
              "_threaded_kernel/_kernel): all schedules with <= 1 (quick) / 2 (thorough) preemptions; 'kernel+main': the starting thread is a "
              "scheduled entity too - at every Thread.start() an already started worker may run first (<= 2 / 3 preemptions of "
              "the starting thread). Oracle per "
              "execution: bitwise equality with nthreads=0, each (i,j) computed exactly once by one worker, no worker "
              "exception, operand digests unchanged; replay determinism asserted.")
LEVEL_NOTE = ("Scheduling points are integrand entries and Python source lines; preemption inside a single bytecode-level "
              "NumPy call is not modelled (NumPy calls on disjoint slices are treated as atomic). CPython memory model. "
              "A free-running pass without the scheduler is not part of the verdict.")
RULE = ("item = (trial element, test element, nthreads, granularity); schedules enumerated depth-first as choice lists "
        "(index into canonical enabled order). non-trivial = distinct observed kernel order in which kernels of at least "
        "two workers alternate (a worker runs, another runs, the first runs again) or, with one kernel per worker, workers "
        "finish in a non-creation order.")
ASSUMPTIONS = [
    "scheduling granularity: integrand invocation (kernel mode) or source line of the two worker functions (line mode)",
    "NumPy array operations are atomic with respect to the scheduler",
]
BOUNDS = {
    'quick': {'full_interleavings_cap': 5100, 'deviation_bound_above_cap': 2, 'line_preemption_bound': 1, 'main_preemption_bound': 2,
              'line_configs': 'Nu,Nv in {(2,2),(2,3),(3,2)} x threads {2,3}'},
    'thorough': {'full_interleavings_cap': 40000, 'deviation_bound_above_cap': 3, 'line_preemption_bound': 2, 'main_preemption_bound': 3,
                 'line_configs': 'Nu,Nv in {(2,2),(2,3),(3,2),(3,3)} x threads {2,3,4}'},
}
ITEM_TIMEOUT = {'quick': 900, 'thorough': 7200}
ELEMS = {1: 'ElementLineP0', 2: 'ElementLineP1', 3: 'ElementLineP2'}


def items(tier, seed):
    its = []
    for nu in (1, 2, 3):
        for nv in (1, 2, 3):
            for k in range(1, nu * nv + 3):
                its.append((nu, nv, k, 'kernel'))
    if tier == 'quick':
        lc = [(2, 2), (2, 3), (3, 2)]
        ks = (2, 3)
    else:
        lc = [(2, 2), (2, 3), (3, 2), (3, 3)]
        ks = (2, 3, 4)
    for nu, nv in lc:
        for k in ks:
            its.append((nu, nv, k, 'line'))
    # the starting thread is scheduled too: at every Thread.start() an already started worker may run first
    for nu, nv in ([(2, 2), (2, 3)] if tier == 'quick' else [(2, 2), (2, 3), (3, 2), (3, 3)]):
        for k in (2, 3, 4):
            its.append((nu, nv, k, 'kernel+main'))
    # complex-valued forms (dtype=complex, complex integrand): the workers' output buffer must carry the form's dtype
    for nu, nv, k in ((1, 1, 1), (2, 2, 2), (2, 3, 3), (3, 2, 4)):
        its.append((nu, nv, k, 'kernel', 'complex'))
    # one form OBJECT used first for the transposed local shape (Nv, Nu), then explored for (Nu, Nv)
    for nu, nv, k in ((2, 3, 2), (3, 2, 3), (1, 3, 2), (3, 1, 4)):
        its.append((nu, nv, k, 'kernel', 'reused-form'))
    # one triangle configuration with many pairs (P1 x P2: 18 pairs)
    its.append(('tri', 3, 6, 2, 'kernel'))
    its.append(('tri', 3, 6, 5, 'kernel'))
    if tier == 'thorough':
        # the big configurations are dealt to SHARDS work items each (disjoint shares of the same enumeration)
        out = []
        for it in its:
            if heavy(it):
                out += [it + (('shard', k, SHARDS),) for k in range(SHARDS)]
            else:
                out.append(it)
        its = out
    return its


SHARDS = 8


def heavy(it):
    if it[0] == 'tri' or it[-1] in ('complex', 'reused-form'):
        return False
    nu, nv, k, mode = it[:4]
    return (mode in ('line', 'kernel+main') and nu * nv >= 6) or (mode == 'kernel' and nu * nv >= 6 and k >= 3)


def cost(item):
    if item[0] == 'tri':
        return 50
    if isinstance(item[-1], (tuple, list)):
        return 400
    nu, nv, k, mode = item[:4]
    return (nu * nv) ** 2 * (10 if mode == 'line' else 3 if mode == 'kernel+main' else 1)


def n_interleavings(counts):
    tot = math.factorial(sum(counts))
    for c in counts:
        tot //= math.factorial(c)
    return tot


def digest(arrs):
    h = hashlib.sha1()
    for a in arrs:
        h.update(np.ascontiguousarray(a).tobytes())
    return h.hexdigest()


def basis_arrays(b):
    out = [b.dx, b.element_dofs, b.X, b.W]
    for tup in b.basis:
        for f in tup:
            for a in f:
                if a is not None:
                    out.append(np.asarray(a))
    return out


class Harness:
    def __init__(self, item, seed):
        import skfem
        from skfem import MeshLine, MeshTri, Basis
        import skfem.element as E
        self.shard = None
        if isinstance(item[-1], (tuple, list)) and item[-1][0] == 'shard':
            self.shard = (item[-1][1], item[-1][2])
            item = item[:-1]
        self.cx = item[-1] == 'complex'
        self.reuse = item[-1] == 'reused-form'
        if self.cx or self.reuse:
            item = item[:-1]
        if item[0] == 'tri':
            _, nu, nv, k, mode = item
            m = MeshTri(np.array([[0, 0], [1, 0], [0, 1], [1.25, .75]]).T, np.array([[0, 1, 2], [1, 3, 2]]).T)
            eu, ev = E.ElementTriP1(), E.ElementTriP2()
        else:
            nu, nv, k, mode = item
            m = MeshLine(np.array([0., .5 + (seed % 4) / 16, 1.75]))
            eu, ev = getattr(E, ELEMS[nu])(), getattr(E, ELEMS[nv])()
        self.k, self.mode = k, mode
        self.ub = Basis(m, eu, intorder=4)
        self.vb = Basis(m, ev, intorder=4)
        assert self.ub.Nbfun == nu and self.vb.Nbfun == nv
        self.nu, self.nv = nu, nv
        self.coef = np.arange(self.ub.N, dtype=float) * .5 + 1
        self.uid = {id(self.ub.basis[j][0]): j for j in range(nu)}
        self.vid = {id(self.vb.basis[i][0]): i for i in range(nv)}
        import skfem.assembly.form.bilinear_form as bf
        self.bf = bf
        self.codes = {bf.BilinearForm._threaded_kernel.__code__, bf.BilinearForm._kernel.__code__}
        self.sched = None
        self.fkw = {'dtype': np.complex128} if self.cx else {}
        self.serial = self.run_serial()
        self.shared_form = None
        if self.reuse:
            from skfem import BilinearForm
            self.shared_form = BilinearForm(self.integrand, nthreads=self.k)
            self.log = []
            self.shared_form.assemble(self.vb, self.ub, c=np.ones(self.vb.N))     # transposed local shape, free-running
            self.log = []
        self.dig0 = self.operand_digest()

    def operand_digest(self):
        return digest(basis_arrays(self.ub) + basis_arrays(self.vb) + [self.coef])

    def integrand(self, u, v, w):
        s = self.sched
        th = s.current() if s is not None else None
        j = self.uid.get(id(u), -1)
        i = self.vid.get(id(v), -1)
        tid = -1 if th is None else th.tid
        if th is not None and self.mode in ('kernel', 'kernel+main'):
            if getattr(th, 'kcalls', 0) > 0:
                s.maybe_yield()
            th.kcalls = getattr(th, 'kcalls', 0) + 1
        self.log.append((tid, j, i))       # logged when the kernel actually runs (after the hand-back), not when it is reached
        r = u * v * (1. + w.x[0]) + w['c'] * u * v.grad[0] + u.grad[0] * v * w.h
        return r * (1. + 2.j) + 3.j * u * v if self.cx else r

    def run_serial(self):
        from skfem import BilinearForm
        self.log = []
        self.sched = None
        A = BilinearForm(self.integrand, nthreads=0, **self.fkw).assemble(self.ub, self.vb, c=self.coef)
        self.serial_log = list(self.log)
        return A

    def run(self, prefix):
        from skfem import BilinearForm
        s = S.Sched(prefix, trace_codes=self.codes if self.mode == 'line' else (), schedule_main=self.mode == 'kernel+main')
        self.sched = s
        self.log = []
        orig = self.bf.Thread
        self.bf.Thread = S.thread_class(s)
        x = collections.namedtuple('X', 'points choices A log exc err')
        err = None
        A = None
        try:
            form = self.shared_form if self.shared_form is not None else BilinearForm(self.integrand, nthreads=self.k, **self.fkw)
            A = form.assemble(self.ub, self.vb, c=self.coef)
        except (S.Divergence, S.Deadlock) as e:
            err = e
        finally:
            self.bf.Thread = orig
            self.sched = None
        exc = [(t.tid, repr(t.exc)) for t in s.threads if t.exc is not None]

        class X:
            pass
        r = X()
        r.points, r.choices, r.A, r.log, r.exc, r.err = s.points, s.choices, A, list(self.log), exc, err
        r.nthreads_created = len(s.threads)
        r.capped = False
        return r


def interleaved(log):
    """True if some worker runs a kernel, then another worker does, then the first again;
    or (single-kernel workers) workers run in a non-creation order."""
    tids = [t for t, _, _ in log]
    seen_after = {}
    last = None
    closed = set()
    for t in tids:
        if t != last:
            if t in closed:
                return True
            if last is not None:
                closed.add(last)
        last = t
    firsts = []
    for t in tids:
        if t not in firsts:
            firsts.append(t)
    return firsts != sorted(firsts)


def work(item, tier, seed):
    out = Out()
    out.set_item(item)
    bd = BOUNDS[tier]
    H = Harness(item, seed)
    nu, nv, k, mode = H.nu, H.nv, H.k, H.mode
    npairs = nu * nv
    chunks = [len(c) for c in np.array_split(np.arange(npairs), k)]
    label = f"{'tri' if item[0] == 'tri' else 'line'}:{nu}x{nv}:threads={k}:{mode}{':complex' if H.cx else ''}{':reused-form' if H.reuse else ''}"
    if H.shard is not None:
        label += f":shard{H.shard[0]}/{H.shard[1]}"
    sig0 = f"C16|Nu={nu},Nv={nv}|threads={k}|{mode}{':complex' if H.cx else ''}{':reused-form' if H.reuse else ''}|"
    if H.cx and (not np.iscomplexobj(H.serial.data) or not np.abs(H.serial.data.imag).max() > 0):
        out.harness_error("complex configuration: the serial matrix has no imaginary part")
    if mode == 'kernel':
        segs = [max(c, 1) for c in chunks]
        total = n_interleavings(segs)
        if total <= bd['full_interleavings_cap']:
            pb, db = None, None
            out.count('configs_fully_enumerated')
        else:
            pb, db = None, bd['deviation_bound_above_cap']
            out.count('configs_deviation_bounded')
            out.cap(f"{label}: {total} interleavings exceed the cap {bd['full_interleavings_cap']}; explored all "
                    f"schedules with <= {db} non-default choices")
    elif mode == 'kernel+main':
        pb, db = bd['main_preemption_bound'], None
        total = None
    else:
        pb, db = bd['line_preemption_bound'], None
        total = None
    sA = H.serial
    sbytes = (sA.data.tobytes(), sA.indices.tobytes(), sA.indptr.tobytes(), sA.shape)
    allpairs = collections.Counter((j, i) for j in range(nu) for i in range(nv))
    nrun = 0
    orders = set()
    for x in S.explore(H.run, preemption_bound=pb, deviation_bound=db, shard=H.shard):
        nrun += 1
        out.ev()
        out.transitions += len(x.choices)
        case = {'config': label, 'schedule': list(x.choices), 'kernel_order': x.log}
        if x.err is not None:
            what = 'deadlock' if isinstance(x.err, S.Deadlock) else 'replay-divergence'
            out.violation(sig0 + what, f"{x.err!r} schedule {x.choices}", case=case)
            break
        if x.exc:
            out.violation(sig0 + 'worker-exception', f"{x.exc} schedule {x.choices}", case=case)
        got = (x.A.data.tobytes(), x.A.indices.tobytes(), x.A.indptr.tobytes(), x.A.shape)
        if got != sbytes:
            d = np.abs(x.A.toarray() - sA.toarray()).max() if x.A.shape == sA.shape else 'shape'
            out.violation(sig0 + 'differs-from-serial', f"matrix differs from nthreads=0 (max abs diff {d}) under "
                          f"schedule {x.choices}, kernel order {x.log}", case=case)
        cnt = collections.Counter((j, i) for _, j, i in x.log)
        if cnt != allpairs:
            out.violation(sig0 + 'pair-not-once', f"pairs computed {dict(cnt)} (each of {npairs} must be 1) schedule "
                          f"{x.choices}", case=case)
        owners = collections.defaultdict(set)
        for t, j, i in x.log:
            owners[(j, i)].add(t)
        if any(len(v) > 1 for v in owners.values()):
            out.violation(sig0 + 'pair-two-owners', "a pair was computed by two workers", case=case)
        if x.nthreads_created != k:
            out.violation(sig0 + 'thread-count', f"{x.nthreads_created} workers created for nthreads={k}", case=case)
        if H.operand_digest() != H.dig0:
            out.violation(sig0 + 'operand-mutated', "basis arrays / dx / parameter vector changed", case=case)
            H.dig0 = H.operand_digest()
        key = tuple(x.log)
        if key not in orders:
            orders.add(key)
            out.outcome((label, key))
            if interleaved(x.log):
                out.nt((label, key))
        if nrun in (1, 7, 100, 1000):
            # the same schedule replayed twice must give identical observations
            y = H.run(list(x.choices))
            if y.err is not None or y.log != x.log or y.choices != x.choices or y.points != x.points:
                out.violation(sig0 + 'nondeterministic-replay', f"schedule {x.choices} gave a different observation "
                              f"when replayed", case=case)
            if nrun == 7 or (nrun == 1 and total == 1):
                out.sample({'config': label, 'schedule': list(x.choices), 'kernel_order(tid,j,i)': x.log}, 1)
    out.states += nrun
    out.traces += nrun
    out.count('schedules', nrun)
    if mode == 'kernel' and db is None and total is not None and H.shard is not None:
        out.count(f'schedules_of_sharded:{nu}x{nv}:threads={k}', nrun)     # the shares must add up to the total (finish())
        out.count(f'total_of_sharded:{nu}x{nv}:threads={k}:{total}', 1)
    elif mode == 'kernel' and db is None and total is not None and nrun != total:
        out.violation(sig0 + 'harness-count', f"explored {nrun} schedules, expected {total}", case={'config': label})
    return out


def finish(total, tier, seed):
    # sharded full enumerations: the shares must add up to the multinomial count (nothing lost, nothing twice)
    for key in [k for k in total.counters if k.startswith('total_of_sharded:')]:
        _, cfg, thr, tot = key.split(':')
        got = total.counters.get(f'schedules_of_sharded:{cfg}:{thr}', 0)
        if total.counters[key] == SHARDS and got != int(tot):
            total.violation(f"C16|{cfg}|{thr}|kernel|harness-count", f"shards explored {got} schedules in total, expected {tot}",
                            case={'config': f'{cfg}:{thr}'})


def replay(rec, tier, seed):
    from ..report import unjson
    item = unjson(rec['item'])
    H = Harness(item, seed)
    out = Out()
    x = H.run(list(rec['case']['schedule']))
    sA = H.serial
    sig0 = f"C16|Nu={H.nu},Nv={H.nv}|threads={H.k}|{H.mode}|"
    if x.err is not None:
        out.violation(sig0 + ('deadlock' if isinstance(x.err, S.Deadlock) else 'replay-divergence'), repr(x.err))
        return out
    if x.exc:
        out.violation(sig0 + 'worker-exception', str(x.exc))
    if x.A.shape != sA.shape or (x.A != sA).nnz:
        out.violation(sig0 + 'differs-from-serial', f"kernel order {x.log}")
    cnt = collections.Counter((j, i) for _, j, i in x.log)
    if any(v != 1 for v in cnt.values()) or len(cnt) != H.nu * H.nv:
        out.violation(sig0 + 'pair-not-once', str(dict(cnt)))
    return out
