"""C05 - essential boundary conditions: condense / enforce / penalize / mpc / expansion.

Small-scope exhaustive enumeration of sparse systems and index splits against a dense
integer reference model (integer data => all reference arithmetic is exact in float64).
"""
from __future__ import annotations

import itertools
import warnings

import numpy as np
import scipy.sparse as sp

from ..report import Out

ID = 'C05'
# sub-checks added after the seeded-change waves (DESIGN.md sections 5 and 6)
EXTENSIONS = [
    'overlapping dict views, single-case replay, solve leaves system and operands intact, second solve equals the first',
    'expand=False keeps the given order; float32 load / complex prescribed values / complex system with x omitted / omitted right-hand side; constrained sets named with repeated indices; all-kept permuted I; overwrite=True semantics; defaults',
]
LEVEL = 'exploration'
TECHNIQUE = "small-scope exhaustive input enumeration (all sparsity patterns x all ordered index splits) vs dense exact model"
LEVEL_TEXT = ("Exhaustive within the bound: every 3x3 sparsity pattern (512) and every row-type vector for n=4 (quick) and "
              "n=5 (thorough) (row empty / diagonal only / off-diagonal only / full), each in two storage variants "
              "(canonical CSR; unsorted column indices with stored explicit zeros), crossed with EVERY non-empty subset of "
              "indices in EVERY order, given as D or as I, as int32/int64 arrays, DofsView or dict of views, through "
              "condense+solve, enforce (diag 1 and 7, vector and matrix rhs, overwrite on/off), penalize, mpc and the "
              "eigen expansion with a stub solver. Integer data make the dense reference exact.")
LEVEL_NOTE = ("Matrices are CSR (what assembly returns) with integer entries <= 9 in magnitude; the linear solves use SciPy's "
              "spsolve (trusted, residual checked to 1e-9 relative); kept block must be nonsingular (exact integer "
              "determinant) for solution-level checks, otherwise only the algebraic identities are checked.")
RULE = ("case = (n, sparsity pattern or row-type vector, storage variant, ordered index subset, which-set-given, index form); "
        "every case runs all operations. non-trivial = distinct (pattern, storage, ordered subset) in which a constrained "
        "row stores no entry, or stores an explicit zero, or the subset is given unsorted, or the kept block is nonsingular "
        "so the solve/expand path ran.")
ASSUMPTIONS = [
    "CSR input (the format assembly produces); CSC/COO inputs are not claimed by the statement's mechanism",
    "no duplicate indices inside D or I",
    "penalize is checked with an explicit epsilon = 2^-30 and with the default epsilon only when the constrained "
    "diagonal is not identically zero (the default divides by its norm)",
]
BOUNDS = {'quick': {'n': [3, 4], 'n3': 'all 512 patterns', 'n4': 'all 4^4 row-type vectors'},
          'thorough': {'n': [3, 4, 5], 'n5': 'all 4^5 row-type vectors'}}
NSAMPLES = 4


def _val(i, j):
    v = 1 + ((3 * i + 5 * j + i * j) % 7)
    return -v if (i + 2 * j) % 3 == 0 else v


def dense_from_pattern(n, cells):
    A = np.zeros((n, n), dtype=np.int64)
    for (i, j) in cells:
        A[i, j] = _val(i, j) + (9 if i == j else 0) * (1 if _val(i, j) > 0 else -1) * 0
    return A


def patterns(n):
    """Yield (label, list of stored (i, j))."""
    if n == 3:
        pos = [(i, j) for i in range(3) for j in range(3)]
        for bits in range(512):
            yield (f"p{bits:03x}", [pos[k] for k in range(9) if bits >> k & 1])
    else:
        # row types: 0 empty, 1 diagonal only, 2 off-diagonal only (two neighbours), 3 full
        for rt in itertools.product(range(4), repeat=n):
            cells = []
            for i, r in enumerate(rt):
                if r == 1:
                    cells.append((i, i))
                elif r == 2:
                    cells += [(i, (i + 1) % n), (i, (i + n - 2) % n)] if n > 2 else [(i, 1 - i)]
                elif r == 3:
                    cells += [(i, j) for j in range(n)]
            yield ('r' + ''.join(map(str, rt)), sorted(set(cells)))


def build_csr(n, cells, variant):
    """variant 0: canonical CSR.  variant 1: column indices in descending order inside each row
    and one stored explicit zero per non-empty row (at a position that the pattern leaves free if
    any, else none)."""
    rows = [[] for _ in range(n)]
    for (i, j) in cells:
        rows[i].append((j, float(_val(i, j))))
    if variant == 1:
        for i in range(n):
            if rows[i]:
                free = [j for j in range(n) if j not in [c for c, _ in rows[i]]]
                if free:
                    rows[i].append((free[-1], 0.0))
            rows[i].sort(key=lambda cv: -cv[0])
    else:
        for i in range(n):
            rows[i].sort()
    indptr = np.zeros(n + 1, dtype=np.int32)
    indices, data = [], []
    for i in range(n):
        for j, v in rows[i]:
            indices.append(j)
            data.append(v)
        indptr[i + 1] = len(indices)
    A = sp.csr_matrix((np.array(data, dtype=np.float64), np.array(indices, dtype=np.int32), indptr),
                      shape=(n, n))
    return A


def ordered_subsets(n):
    for k in range(1, n + 1):
        for comb in itertools.combinations(range(n), k):
            for perm in itertools.permutations(comb):
                yield perm


def items(tier, seed):
    its = []
    for n in BOUNDS[tier]['n']:
        npat = 512 if n == 3 else 4 ** n
        nchunk = {3: 8, 4: 16, 5: 128}[n]
        for ch in range(nchunk):
            its.append((n, ch, nchunk))
    return its


def cost(item):
    return {3: 1, 4: 3, 5: 20}[item[0]]


_BASIS = {}


def _basis(n):
    """1-D P1 basis with N == n DOFs (DOF k sits on vertex k): used to build DofsView operands."""
    if n not in _BASIS:
        from skfem import MeshLine, Basis, ElementLineP1
        m = MeshLine(np.arange(n, dtype=float))
        _BASIS[n] = Basis(m, ElementLineP1())
    return _BASIS[n]


def index_forms(n, sub, seedsel, given='D'):
    """Equivalent ways of naming an ordered index subset."""
    forms = [('int64', np.array(sub, dtype=np.int64))]
    forms.append(('int32', np.array(sub, dtype=np.int32)))
    if given == 'D':
        # the constrained SET named with a repeated index (e.g. the concatenation of the DOFs of two boundary parts that
        # share a corner); a repeated index in the kept set would ask for a singular system and is not a legal input
        forms.append(('int64-repeated', np.array(list(sub) + [sub[0]], dtype=np.int64)))
    if tuple(sorted(sub)) == tuple(sub):
        b = _basis(n)
        forms.append(('DofsView', b.get_dofs(np.array(sub, dtype=np.int32))))
        if len(sub) >= 2:
            forms.append(('dict', {'a': b.get_dofs(np.array(sub[:1], dtype=np.int32)),
                                   'b': b.get_dofs(np.array(sub[1:], dtype=np.int32))}))
            # overlapping views (e.g. two sides of a domain sharing a corner)
            forms.append(('dict-overlapping', {'a': b.get_dofs(np.array(sub[:2], dtype=np.int32)),
                                               'b': b.get_dofs(np.array(sub[1:], dtype=np.int32)),
                                               'c': b.get_dofs(np.array(sub[:1], dtype=np.int32))}))
    return forms


def snapshot(A, *arrs):
    return (A.data.tobytes(), A.indices.tobytes(), A.indptr.tobytes(), A.shape, type(A).__name__) + tuple(
        None if a is None else (a.data.tobytes(), a.indices.tobytes(), a.indptr.tobytes()) if sp.issparse(a)
        else np.asarray(a).tobytes() for a in arrs)


def work(item, tier, seed):
    n, ch, nchunk = item
    out = Out()
    out.set_item(item)
    warnings.simplefilter('ignore')
    pats = list(patterns(n))
    mine = pats[ch::nchunk]
    subs = list(ordered_subsets(n))
    for plabel, cells in mine:
        for variant in (0, 1):
            A0 = build_csr(n, cells, variant)
            Ad = A0.toarray().astype(np.int64)
            stored = [[False] * n for _ in range(n)]
            for i in range(n):
                for k in range(A0.indptr[i], A0.indptr[i + 1]):
                    stored[i][A0.indices[k]] = True
            for sub in subs:
                for given in ('D', 'I'):
                    run_case(out, n, plabel, variant, A0, Ad, stored, sub, given, seed)
    return out


def run_case(out, n, plabel, variant, A0, Ad, stored, sub, given, seed):
    from skfem.utils import condense, enforce, penalize, solve, mpc
    full = np.arange(n)
    comp = np.setdiff1d(full, np.array(sub))
    if given == 'D':
        Dset, Iset = np.array(sub), comp
    else:
        Iset, Dset = np.array(sub), comp
    if len(Dset) == 0:
        # nothing constrained: the kept set is every index, possibly in another order; solving the condensed system and
        # expanding must still return the solution of A y = b in the ORIGINAL numbering
        if given == 'I' and abs(np.linalg.det(Ad.astype(float))) > 0.5:
            b0_ = np.array([3 + 2 * i + (i * i) % 5 for i in range(n)], dtype=np.float64)
            x0_ = np.array([5. - 3 * i for i in range(n)])
            try:
                out.ev()
                y = np.asarray(solve(*condense(A0.copy(), b0_.copy(), x=x0_.copy(), I=np.array(sub, dtype=np.int64))))
                r = Ad.astype(float) @ y - b0_
                if y.shape != (n,) or np.abs(r).max() > 1e-8 * (1 + np.abs(y).max()) * (1 + np.abs(Ad).max()):
                    out.violation(f"C05|condense+solve|all-kept-permuted|n={n}", f"I = {list(sub)} (every index, nothing constrained): the "
                                  f"expanded solution {y.tolist()} does not solve A y = b in the original numbering (residual "
                                  f"{r.tolist()}) (n={n} pattern={plabel})",
                                  case={'n': n, 'pattern': plabel, 'variant': variant, 'A': Ad.tolist(), 'I': list(sub)})
                elif tuple(sorted(sub)) != tuple(sub):
                    out.nt((n, plabel, variant, sub, 'all-kept'))
            except Exception as e:
                out.violation(f"C05|condense+solve|all-kept-exception|n={n}", f"{e!r} for I = {list(sub)}",
                              case={'n': n, 'pattern': plabel, 'variant': variant, 'A': Ad.tolist(), 'I': list(sub)})
        return
    b0 = np.array([3 + 2 * i + (i * i) % 5 for i in range(n)], dtype=np.float64) * (-1) ** np.arange(n)
    x0 = np.array([5 - 3 * i + (seed % 3) for i in range(n)], dtype=np.float64)
    Md = np.diag(2 + np.arange(n)).astype(np.int64) + np.triu(np.ones((n, n), dtype=np.int64), 1) * 3
    M0 = sp.csr_matrix(Md.astype(np.float64))
    AII = Ad[np.ix_(Iset, Iset)] if len(Iset) else np.zeros((0, 0))
    nonsing = len(Iset) > 0 and abs(np.linalg.det(AII.astype(float))) > 0.5
    empty_D_row = any(A0.indptr[d + 1] == A0.indptr[d] for d in Dset)
    explicit_zero_D = any(stored[d][j] and Ad[d, j] == 0 for d in Dset for j in range(n))
    unsorted = tuple(sorted(sub)) != tuple(sub)
    feat = f"emptyDrow={int(empty_D_row)}"
    case = {'n': n, 'pattern': plabel, 'variant': variant, 'A': Ad.tolist(), given: list(sub), 'b': b0.tolist(),
            'x': x0.tolist(), 'indptr': A0.indptr.tolist(), 'indices': A0.indices.tolist(),
            'data': A0.data.tolist()}
    if empty_D_row or explicit_zero_D or unsorted or nonsing:
        out.nt((n, plabel, variant, sub, given))
    if out.evals % 5000 == 0:
        out.sample({'n': n, 'pattern': plabel, 'storage_variant': variant, given: list(sub)}, 2)

    def bad(op, what, msg, form=''):
        c = dict(case)
        c['op'] = op
        c['form'] = form
        out.violation(f"C05|{op}|{what}|{feat}", f"{msg} (n={n} pattern={plabel} variant={variant} {given}={list(sub)} "
                      f"form={form})", case=c)

    forms = index_forms(n, sub, seed, given)
    for fname, ix in forms:
        kw = {given: ix}
        A = A0.copy()
        b = b0.copy()
        x = x0.copy()
        snap = snapshot(A, b, x)
        out.ev()

        # ---------------- condense -------------------------------------------------------
        try:
            Ac, bc, xr, Ir = condense(A, b, x=x, **kw)
        except Exception as e:
            bad('condense', 'exception', repr(e), fname)
            continue
        Ir = np.asarray(Ir)
        if sorted(Ir.tolist()) != sorted(Iset.tolist()):
            bad('condense', 'I-set', f"returned kept set {Ir.tolist()} expected {sorted(Iset.tolist())}", fname)
            continue
        Dr = np.setdiff1d(full, Ir)
        if not np.array_equal(Ac.toarray(), Ad[np.ix_(Ir, Ir)]):
            bad('condense', 'A_II', "condensed matrix != A[I][:, I]", fname)
        wantb = b0[Ir] - Ad[np.ix_(Ir, Dr)] @ x0[Dr]
        if not np.array_equal(np.asarray(bc), wantb):
            bad('condense', 'b_I', f"condensed rhs {np.asarray(bc).tolist()} != b[I]-A[I,D]x[D] {wantb.tolist()}", fname)
        if snapshot(A, b, x) != snap:
            bad('condense', 'mutates-operand', "A, b or x changed", fname)
        if nonsing:
            try:
                sys_snap = (Ac.toarray().tobytes(), np.asarray(bc).tobytes(), np.asarray(xr).tobytes())
                y = solve(Ac, bc, xr, Ir)
                chk_solution(out, bad, 'condense+solve', y, Ad, b0, x0, Ir, Dr, fname)
                # the solve is not an overwriting operation: the caller's x (and A, b) and the condensed system
                # it was given stay as they were, so the same system can be solved again
                if snapshot(A, b, x) != snap:
                    bad('condense+solve', 'mutates-operand', "A, b or the prescribed-value vector x changed during solve", fname)
                if (Ac.toarray().tobytes(), np.asarray(bc).tobytes(), np.asarray(xr).tobytes()) != sys_snap:
                    bad('condense+solve', 'mutates-system', "the condensed system (A_II, b_I, x) changed during solve", fname)
                y2 = solve(Ac, bc, xr, Ir)
                if not np.array_equal(np.asarray(y2), np.asarray(y)):
                    bad('condense+solve', 'second-solve-differs', f"solving the same condensed system twice: {np.asarray(y).tolist()} "
                        f"then {np.asarray(y2).tolist()}", fname)
            except Exception as e:
                bad('condense+solve', 'exception', repr(e), fname)
            out.outcome(('solve', n, len(Ir)))
        # expand=False: the caller gets no index set back, so the rows / columns must follow the order in which I was
        # given (ascending complement when D was given); without b only A_II is returned
        if fname in ('int64', 'int32'):
            try:
                Iord = np.array(sub) if given == 'I' else Iset
                Dord = np.setdiff1d(full, Iord)
                Ae_, be_ = condense(A, b, x=x, expand=False, **kw)
                wantb_ = b0[Iord] - Ad[np.ix_(Iord, Dord)] @ x0[Dord]
                if not np.array_equal(Ae_.toarray(), Ad[np.ix_(Iord, Iord)]) or not np.array_equal(np.asarray(be_), wantb_):
                    bad('condense-noexpand', 'order', f"condense(..., expand=False) does not return A[I][:, I], b[I]-A[I,D]x[D] in the "
                        f"order of the given index set {Iord.tolist()}", fname)
                Aonly = condense(A, **kw)
                if sp.issparse(Aonly) and not np.array_equal(Aonly.toarray(), Ad[np.ix_(Iord, Iord)]):
                    bad('condense-noexpand', 'A-only', "condense(A, I/D) without right-hand side does not return A[I][:, I]", fname)
            except Exception as e:
                bad('condense-noexpand', 'exception', repr(e), fname)
        # data of other dtypes: a float32 load vector with prescribed values that float32 cannot hold, complex prescribed
        # values with a real system - the condensed rhs and the expanded solution carry full precision / the imaginary part
        if fname == 'int64':
            try:
                b32 = b0.astype(np.float32)
                xf = x0 + 0.1
                Ac_, bc_, xr_, Ir_ = condense(A, b32, x=xf, **kw)
                Ir_ = np.asarray(Ir_)
                Dr_ = np.setdiff1d(full, Ir_)
                wb_ = b0[Ir_] - Ad[np.ix_(Ir_, Dr_)].astype(float) @ xf[Dr_]
                if np.abs(np.asarray(bc_) - wb_).max(initial=0) > 1e-13 * (1 + np.abs(wb_).max(initial=0)):
                    bad('condense', 'b_I-float32-load', f"float32 load vector: condensed rhs differs from b[I]-A[I,D]x[D] by "
                        f"{np.abs(np.asarray(bc_) - wb_).max():.3e} (precision of the prescribed values lost)", fname)
                xc = x0 * (1 + 0.5j)
                Ac_, bc_, xr_, Ir_ = condense(A, b0.copy(), x=xc, **kw)
                Ir_ = np.asarray(Ir_)
                Dr_ = np.setdiff1d(full, Ir_)
                wb_ = b0[Ir_] - Ad[np.ix_(Ir_, Dr_)].astype(float) @ xc[Dr_]
                if np.abs(np.asarray(bc_) - wb_).max(initial=0) > 1e-13 * (1 + np.abs(wb_).max(initial=0)):
                    bad('condense', 'b_I-complex-x', "complex prescribed values: condensed rhs differs from b[I]-A[I,D]x[D]", fname)
                elif nonsing:
                    yc = np.asarray(solve(Ac_, bc_, xr_, Ir_))
                    if not np.iscomplexobj(yc) or np.abs(yc[Dr_] - xc[Dr_]).max(initial=0) > 1e-12 * (1 + np.abs(xc).max()):
                        bad('condense+solve', 'complex-x-on-D', f"complex prescribed values with a real matrix: the expanded solution "
                            f"has {yc[Dr_].tolist()} on the constrained indices, prescribed {xc[Dr_].tolist()}", fname)
                    r_ = (Ad.astype(float) @ yc - b0)[Ir_]
                    if np.abs(r_).max(initial=0) > 1e-8 * (1 + np.abs(yc).max()) * (1 + np.abs(Ad).max()):
                        bad('condense+solve', 'complex-kept-equations', "complex prescribed values: kept equations violated", fname)
                # right-hand side omitted (zero load): the helpers build it themselves, in a dtype that can hold x
                be_ = np.asarray(enforce(A, x=xc, **kw)[1])
                we_ = np.zeros(n, dtype=complex)
                we_[Dset] = xc[Dset]
                if be_.shape != we_.shape or np.abs(be_ - we_).max() > 0:
                    bad('enforce', 'rhs-omitted-b', f"enforce(A, x=x, D) without b and complex x: rhs {be_.tolist()} expected {we_.tolist()}", fname)
                bp_ = np.asarray(penalize(A, x=xc, epsilon=2.0 ** -20, **kw)[1])
                if bp_.shape != we_.shape or np.abs(bp_ - we_ * 2.0 ** 20).max() > 1e-9 * (1 + np.abs(we_).max() * 2.0 ** 20):
                    bad('penalize', 'rhs-omitted-b', "penalize(A, x=x, D) without b and complex x: rhs is not x/eps on the constrained entries", fname)
                rz = condense(A, x=xc, **kw)
                bcz, Iz = np.asarray(rz[1]), np.asarray(rz[3])
                wz = -Ad[np.ix_(Iz, Dset)].astype(float) @ xc[Dset]
                if bcz.shape != wz.shape or np.abs(bcz - wz).max(initial=0) > 1e-13 * (1 + np.abs(wz).max(initial=0)):
                    bad('condense', 'rhs-omitted-b', "condense(A, x=x, D) without b and complex x: rhs is not -A[I,D]x[D]", fname)
                # a complex SYSTEM with the prescribed values omitted: zero of the system's dtype, nothing lost in the expansion
                if nonsing:
                    zc = 1.0 + 0.5j
                    Acx = sp.csr_matrix(A0.toarray() * zc)
                    bcx = b0 * (2.0 - 1.0j)
                    ycx = np.asarray(solve(*condense(Acx, bcx, **kw)))
                    Irx = np.setdiff1d(full, Dset)
                    rcx = (Acx.toarray() @ ycx - bcx)[Irx]
                    if not np.iscomplexobj(ycx) or np.abs(ycx[Dset]).max(initial=0) > 0 or \
                            np.abs(rcx).max(initial=0) > 1e-8 * (1 + np.abs(ycx).max()) * (1 + np.abs(Ad).max()):
                        bad('condense+solve', 'complex-system-x-omitted', "complex system, x omitted: the expanded solution is not complex / "
                            "not zero on the constrained indices / violates the kept equations", fname)
            except Exception as e:
                bad('condense', 'dtype-exception', repr(e), fname)
        # matrix rhs (generalised eigenproblem) + expansion with a stub solver
        try:
            Ac2, Mc2, xr2, Ir2 = condense(A, M0, x=x, **kw)
            if not (np.array_equal(Ac2.toarray(), Ad[np.ix_(Ir2, Ir2)])
                    and np.array_equal(Mc2.toarray(), Md[np.ix_(Ir2, Ir2)])):
                bad('condense-eig', 'blocks', "A_II / M_II wrong for matrix right-hand side", fname)
            if len(Ir2):
                kcols = 2
                X = (np.arange(len(Ir2) * kcols).reshape(len(Ir2), kcols) + 1.0) * np.array([1.0, -2.0])
                L0 = np.array([1.5, -2.5])
                Lr, Y = solve(Ac2, Mc2, xr2, Ir2, solver=lambda K, M, **k: (L0, X))
                if snapshot(A, b, x) != snap:
                    bad('solve-eigen', 'mutates-operand', "A, b or x changed during the eigen solve/expansion", fname)
                want = np.tile(x0[:, None], (1, kcols))
                want[Ir2] = X
                if not (np.array_equal(Y, want) and np.array_equal(Lr, L0)):
                    bad('solve-eigen', 'expansion', "expanded eigenvectors != (x on D, X on I)", fname)
        except Exception as e:
            bad('condense-eig', 'exception', repr(e), fname)

        # ---------------- enforce --------------------------------------------------------
        for diag in (1.0, 7.0):
            for overwrite in (False, True):
                A = A0.copy()
                b = b0.copy()
                x = x0.copy()
                snap = snapshot(A, b, x)
                out.ev()
                try:
                    Ae, be = enforce(A, b, x=x, diag=diag, overwrite=overwrite, **kw)
                except Exception as e:
                    bad('enforce', 'exception', repr(e), fname)
                    continue
                Aed = Ae.toarray()
                want = Ad.astype(float).copy()
                want[Dset] = 0
                want[Dset, Dset] = diag
                if not np.array_equal(Aed[Dset], want[Dset]):
                    bad('enforce', 'rows-D', f"constrained rows are {Aed[Dset].tolist()} expected diag*e_i", fname)
                if not np.array_equal(Aed[Iset], want[Iset]):
                    bad('enforce', 'rows-I', f"an unconstrained row changed: got {Aed[Iset].tolist()} expected "
                        f"{want[Iset].tolist()}", fname)
                wb = b0.copy()
                wb[Dset] = x0[Dset]
                if not np.array_equal(np.asarray(be), wb):
                    bad('enforce', 'rhs', f"rhs {np.asarray(be).tolist()} expected {wb.tolist()}", fname)
                if not overwrite and snapshot(A, b, x) != snap:
                    bad('enforce', 'mutates-operand', "A, b or x changed although overwrite=False", fname)
                if overwrite and (snapshot(A, b, x)[5:] != snap[5:] and not np.array_equal(x, x0)):
                    bad('enforce', 'mutates-x', "x changed", fname)
                if diag == 1.0 and nonsing and not overwrite:
                    try:
                        y = solve(Ae, be)
                        chk_solution(out, bad, 'enforce+solve', y, Ad, b0, x0, Iset, Dset, fname)
                    except Exception as e:
                        bad('enforce+solve', 'exception', repr(e), fname)
        # overwrite=True: the arguments themselves hold the constrained system afterwards (vector and matrix right-hand side)
        try:
            A = A0.copy()
            b = b0.copy()
            Mm = M0.copy()
            enforce(A, b, x=x0.copy(), overwrite=True, **kw)
            want = Ad.astype(float).copy()
            want[Dset] = 0
            want[Dset, Dset] = 1.0
            wb = b0.copy()
            wb[Dset] = x0[Dset]
            if not np.array_equal(A.toarray(), want) or not np.array_equal(b, wb):
                bad('enforce', 'overwrite-in-place', "enforce(..., overwrite=True) did not leave the constrained system in its arguments A, b", fname)
            A = A0.copy()
            enforce(A, Mm, overwrite=True, **kw)
            wantM = Md.astype(float).copy()
            wantM[Dset] = 0
            if not np.array_equal(A.toarray(), want) or not np.array_equal(Mm.toarray(), wantM):
                bad('enforce-eig', 'overwrite-in-place', "enforce(A, M, overwrite=True) did not leave the constrained pair in its arguments "
                    "(the caller's M keeps its constrained rows)", fname)
        except Exception as e:
            bad('enforce', 'overwrite-exception', repr(e), fname)
        # every optional argument omitted: diag = 1, nothing overwritten, zero prescribed values
        try:
            A = A0.copy()
            b = b0.copy()
            snap = snapshot(A, b)
            Ae, be = enforce(A, b, **kw)
            want = Ad.astype(float).copy()
            want[Dset] = 0
            want[Dset, Dset] = 1.0
            wb = b0.copy()
            wb[Dset] = 0.0
            if not np.array_equal(Ae.toarray(), want) or not np.array_equal(np.asarray(be), wb) or snapshot(A, b) != snap:
                bad('enforce', 'defaults', "enforce(A, b, D) with every optional argument omitted: expected rows e_i (diag 1), rhs 0 on the "
                    "constrained indices, operands untouched", fname)
            Ac_, bc_, xz_, Iz_ = condense(A, b, **kw)
            if not np.array_equal(np.asarray(xz_), np.zeros(n)) or not np.array_equal(np.asarray(bc_), b0[np.asarray(Iz_)]):
                bad('condense', 'defaults', "condense(A, b, D) without x: prescribed values are not zero / rhs is not b[I]", fname)
        except Exception as e:
            bad('enforce', 'defaults-exception', repr(e), fname)
        # matrix right-hand side
        A = A0.copy()
        Mm = M0.copy()
        snap = snapshot(A, Mm)
        try:
            Ae, Me = enforce(A, Mm, **kw)
            wantM = Md.astype(float).copy()
            wantM[Dset] = 0
            wantA = Ad.astype(float).copy()
            wantA[Dset] = 0
            wantA[Dset, Dset] = 1.0
            if not np.array_equal(Me.toarray(), wantM) or not np.array_equal(Ae.toarray(), wantA):
                bad('enforce-eig', 'rows', "matrix rhs: constrained rows of (A, M) are not (e_i, 0) or others changed", fname)
            if snapshot(A, Mm) != snap:
                bad('enforce-eig', 'mutates-operand', "A or M changed", fname)
        except Exception as e:
            bad('enforce-eig', 'exception', repr(e), fname)

        # ---------------- penalize -------------------------------------------------------
        eps = 2.0 ** -30
        dD = Ad[Dset, Dset]
        for epsilon in (eps, None):
            if epsilon is None and not np.any(dD != 0):
                continue
            A = A0.copy()
            b = b0.copy()
            x = x0.copy()
            snap = snapshot(A, b, x)
            out.ev()
            try:
                Ap, bp = penalize(A, b, x=x, epsilon=epsilon, **kw)
            except Exception as e:
                bad('penalize', 'exception', repr(e), fname)
                continue
            e_used = epsilon if epsilon is not None else 1e-10 / float(np.max(np.abs(dD)))
            want = Ad.astype(float).copy()
            want[Dset, Dset] = 1.0 / e_used
            if not np.allclose(Ap.toarray(), want, rtol=1e-15, atol=0):
                bad('penalize', 'matrix', "penalised matrix != A with 1/eps on the constrained diagonal", fname)
            wb = b0.copy()
            wb[Dset] = x0[Dset] / e_used
            if not np.allclose(np.asarray(bp), wb, rtol=1e-15, atol=0):
                bad('penalize', 'rhs', "penalised rhs != b with x/eps on the constrained entries", fname)
            if snapshot(A, b, x) != snap:
                bad('penalize', 'mutates-operand', "A, b or x changed although overwrite=False", fname)
            if nonsing and epsilon is not None:
                try:
                    y = solve(Ap, bp)
                    yex = exact_solution(Ad, b0, x0, Iset, Dset)
                    if not np.all(np.isfinite(y)) or np.max(np.abs(y - yex)) > 1e-3 * (1 + np.max(np.abs(yex))):
                        bad('penalize+solve', 'solution', f"penalised solution {y.tolist()} vs constrained solution "
                            f"{yex.tolist()}", fname)
                except Exception as e:
                    bad('penalize+solve', 'exception', repr(e), fname)

    # ---------------- mpc: x[S] = T x[M] + g  (only with the subset given as D == S) ------
    if given == 'D' and n <= 4 and not unsorted or (given == 'D' and n > 4 and len(sub) <= 2):
        S = np.array(sub, dtype=np.int32)
        rest = [i for i in range(n) if i not in sub]
        for mlen in range(0, min(len(rest), 2) + 1):
            for Msel in itertools.permutations(rest, mlen):
                Mi = np.array(Msel, dtype=np.int32)
                T = np.array([[(2 + r + 2 * c) % 4 - 1 for c in range(mlen)] for r in range(len(S))],
                             dtype=float).reshape(len(S), mlen)
                g = np.array([1.0 + 2 * r for r in range(len(S))])
                U = np.array([i for i in range(n) if i not in sub and i not in Msel], dtype=int)
                A = A0.copy()
                b = b0.copy()
                snap = snapshot(A, b)
                out.ev()
                try:
                    sysm = mpc(A, b, S=S, M=Mi, T=sp.csr_matrix(T), g=g)
                except Exception as e:
                    bad('mpc', 'exception', repr(e))
                    continue
                if snapshot(A, b) != snap:
                    bad('mpc', 'mutates-operand', "A or b changed")
                # reduced operator and rhs against the dense model
                AU = Ad.astype(float)
                Bw = np.block([[AU[np.ix_(U, U)], AU[np.ix_(U, Mi)] + AU[np.ix_(U, S)] @ T],
                               [AU[np.ix_(Mi, U)], AU[np.ix_(Mi, Mi)] + AU[np.ix_(Mi, S)] @ T]])
                yw = np.concatenate((b0[U] - AU[np.ix_(U, S)] @ g, b0[Mi] - AU[np.ix_(Mi, S)] @ g))
                if not np.array_equal(sysm[0].toarray(), Bw) or not np.array_equal(sysm[1], yw):
                    bad('mpc', 'reduced-system', "reduced matrix/rhs differ from substitution x[S]=T x[M]+g")
                    continue
                if Bw.shape[0] and abs(np.linalg.det(Bw)) > 0.5:
                    try:
                        msnap = [np.asarray(a.toarray() if sp.issparse(a) else a).tobytes() for a in sysm[:3]]
                        y = solve(*sysm)
                        if [np.asarray(a.toarray() if sp.issparse(a) else a).tobytes() for a in sysm[:3]] != msnap:
                            bad('mpc+solve', 'mutates-system', "the system returned by mpc changed during solve")
                        y2 = solve(*sysm)
                        if not np.array_equal(np.asarray(y2), np.asarray(y)):
                            bad('mpc+solve', 'second-solve-differs', f"solving the same mpc system twice: {np.asarray(y).tolist()} "
                                f"then {np.asarray(y2).tolist()}")
                        r1 = y[S] - (T @ y[Mi] + g)
                        keep = np.concatenate((U, Mi)).astype(int)
                        r2 = (AU @ y - b0)[keep]
                        scale = 1 + np.max(np.abs(y)) * 10
                        if np.max(np.abs(r1), initial=0) > 1e-9 * scale or np.max(np.abs(r2), initial=0) > 1e-8 * scale:
                            bad('mpc+solve', 'solution', f"expanded solution violates the constraint ({r1.tolist()}) or "
                                f"the kept equations ({r2.tolist()})")
                        out.outcome(('mpc', n, len(S), mlen))
                    except Exception as e:
                        bad('mpc+solve', 'exception', repr(e))


def exact_solution(Ad, b0, x0, I, D):
    y = x0.copy()
    if len(I):
        rhs = b0[I] - Ad[np.ix_(I, D)] @ x0[D]
        y[I] = np.linalg.solve(Ad[np.ix_(I, I)].astype(float), rhs)
    return y


def chk_solution(out, bad, op, y, Ad, b0, x0, I, D, fname):
    y = np.asarray(y)
    if y.shape != x0.shape:
        bad(op, 'shape', f"solution shape {y.shape}", fname)
        return
    if not np.array_equal(y[D], x0[D]) and not np.allclose(y[D], x0[D], rtol=1e-12, atol=1e-12):
        bad(op, 'x-on-D', f"solution on constrained indices {y[D].tolist()} != prescribed {x0[D].tolist()}", fname)
    res = (Ad @ y - b0)[I]
    scale = np.abs(Ad[I]) @ np.abs(y) + np.abs(b0[I]) + 1
    if np.any(np.abs(res) > 1e-9 * scale):
        bad(op, 'kept-equations', f"residual on kept rows {res.tolist()}", fname)


def replay(rec, tier, seed):
    """Re-run all operations on the single recorded system / index split (no enumeration)."""
    c = rec['case']
    n = c['n']
    A0 = sp.csr_matrix((np.array(c['data'], dtype=np.float64), np.array(c['indices'], dtype=np.int32),
                        np.array(c['indptr'], dtype=np.int32)), shape=(n, n))
    Ad = np.array(c['A'], dtype=np.int64)
    stored = [[False] * n for _ in range(n)]
    for i in range(n):
        for k in range(A0.indptr[i], A0.indptr[i + 1]):
            stored[i][A0.indices[k]] = True
    given = 'D' if 'D' in c else 'I'
    out = Out()
    warnings.simplefilter('ignore')
    run_case(out, n, c['pattern'], c['variant'], A0, Ad, stored, tuple(c[given]), given, rec.get('seed', seed))
    return out
