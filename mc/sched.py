"""Controlled scheduler for real ``threading.Thread`` workers (stateless exploration).

The harness replaces a module-level ``Thread`` name by :func:`thread_class(sched)`.  Every
worker is a real OS thread, but only the holder of the baton runs; workers hand the baton
back to the driver (the thread that calls ``join``) at *yield points*:

* kernel granularity: explicit ``sched.maybe_yield()`` calls made from a user callback;
* line granularity: every ``line`` trace event inside selected code objects.

The driver makes one scheduling decision per hand-back.  Decisions are recorded as indices
into the canonical enabled order (running thread first if still enabled, then ascending
ids), so a choice list replays deterministically; an out-of-range choice or a differing
enabled set while replaying a prefix raises :class:`Divergence`.
"""
from __future__ import annotations

import sys
import threading


class Divergence(Exception):
    pass


class Deadlock(Exception):
    pass


class Sched:
    WAIT = 60.0

    def __init__(self, prefix=(), trace_codes=(), schedule_main=False):
        self.prefix = list(prefix)
        self.trace_codes = set(trace_codes)
        self.schedule_main = schedule_main     # also decide, at every Thread.start(), whether workers run first
        self.threads = []
        self.main = threading.Semaphore(0)
        self.choices = []
        self.points = []       # (tuple of enabled tids in canonical order, running_still_enabled)
        self.driven = False
        self.log = []          # observations appended by the harness, in execution order
        self.by_ident = {}

    # ---- worker side --------------------------------------------------------------------
    def current(self):
        return self.by_ident.get(threading.get_ident())

    def maybe_yield(self):
        th = self.current()
        if th is None:
            return            # serial execution in the driver thread: nothing to schedule
        self.main.release()
        if not th.sem.acquire(timeout=self.WAIT):
            raise Deadlock(f"thread {th.tid} never rescheduled")

    # ---- driver side --------------------------------------------------------------------
    def at_start(self):
        """Decision point inside Thread.start(): the starting (main) thread continues (choice 0) or an
        already started worker runs one segment first (choice k >= 1; counted as a preemption of main)."""
        if not self.schedule_main or self.driven:
            return
        while True:
            enabled = [t for t in self.threads if not t.finished and t.os_started]
            if not enabled:
                return
            k = len(self.choices)
            c = self.prefix[k] if k < len(self.prefix) else 0
            if c > len(enabled):
                raise Divergence(f"choice {c} at start-point {k} but only {len(enabled)} workers enabled")
            self.points.append(((-1,) + tuple(t.tid for t in enabled), True))
            self.choices.append(c)
            if c == 0:
                return
            th = enabled[c - 1]
            th.sem.release()
            if not self.main.acquire(timeout=self.WAIT):
                raise Deadlock(f"thread {th.tid} neither yielded nor finished")

    def drive(self):
        if self.driven:
            return
        self.driven = True
        running = None
        while True:
            enabled = [t for t in self.threads if not t.finished]
            if not enabled:
                break
            if running is not None and not running.finished:
                order = [running] + [t for t in enabled if t is not running]
                still = True
            else:
                order = enabled
                still = False
            k = len(self.choices)
            c = self.prefix[k] if k < len(self.prefix) else 0
            if c >= len(order):
                raise Divergence(f"choice {c} at point {k} but only {len(order)} enabled")
            self.points.append((tuple(t.tid for t in order), still))
            self.choices.append(c)
            th = order[c]
            running = th
            th.sem.release()
            if not self.main.acquire(timeout=self.WAIT):
                raise Deadlock(f"thread {th.tid} neither yielded nor finished")


def thread_class(sched: Sched):
    class ControlledThread(threading.Thread):
        def __init__(self, *a, **kw):
            super().__init__(*a, **kw)
            self.daemon = True
            self.tid = len(sched.threads)
            self.sem = threading.Semaphore(0)
            self.finished = False
            self.exc = None
            self.os_started = False
            sched.threads.append(self)

        def start(self):
            super().start()
            self.os_started = True
            sched.at_start()

        def run(self):
            sched.by_ident[threading.get_ident()] = self
            if not self.sem.acquire(timeout=sched.WAIT):
                self.finished = True
                return
            try:
                if sched.trace_codes:
                    sys.settrace(self._tracer)
                super().run()
            except BaseException as e:   # a crashing worker is an observation, not a harness crash
                self.exc = e
            finally:
                sys.settrace(None)
                self.finished = True
                sched.main.release()

        def _tracer(self, frame, event, arg):
            if frame.f_code in sched.trace_codes:
                return self._local
            return None

        def _local(self, frame, event, arg):
            if event == 'line':
                sched.maybe_yield()
            return self._local

        def join(self, timeout=None):
            sched.drive()
            super().join(timeout)

    return ControlledThread


def preemptions(points, choices, upto=None):
    n = len(choices) if upto is None else upto
    return sum(1 for i in range(n) if points[i][1] and choices[i] != 0)


def deviations(points, choices, upto=None):
    n = len(choices) if upto is None else upto
    return sum(1 for i in range(n) if choices[i] != 0)


def alternatives(x, start, preemption_bound=None, deviation_bound=None):
    """Prefixes that deviate from execution x at one point i >= start (within the bounds), deepest point first."""
    out = []
    for i in range(len(x.points) - 1, start - 1, -1):
        order, still = x.points[i]
        pre = preemptions(x.points, x.choices, i)
        dev = deviations(x.points, x.choices, i)
        for alt in range(len(order) - 1, 0, -1):
            if preemption_bound is not None and pre + (1 if still else 0) > preemption_bound:
                continue
            if deviation_bound is not None and dev + 1 > deviation_bound:
                continue
            out.append(list(x.choices[:i]) + [alt])
    return out


def explore(run, preemption_bound=None, deviation_bound=None, max_runs=None, shard=None):
    """Depth-first enumeration of all schedules within the bounds.

    run(prefix) -> object with .points and .choices (complete lists of that execution).
    Yields every execution.  With both bounds None, all interleavings are enumerated.
    shard=(k, S): the subtrees below the first-level deviations of the default execution are dealt round-robin
    to S shards; shard k explores its share (shard 0 also yields the default execution itself), so the union
    over k = 0..S-1 is exactly the unsharded enumeration.
    """
    if shard is None:
        stack = [[]]
    else:
        k, S = shard
        x0 = run([])
        if k == 0:
            yield x0
        stack = alternatives(x0, 0, preemption_bound, deviation_bound)[k::S]
    n = 0
    while stack:
        prefix = stack.pop()
        x = run(prefix)
        n += 1
        yield x
        if max_runs is not None and n >= max_runs:
            x.capped = True
            return
        for i in range(len(x.points) - 1, len(prefix) - 1, -1):
            order, still = x.points[i]
            pre = preemptions(x.points, x.choices, i)
            dev = deviations(x.points, x.choices, i)
            for alt in range(len(order) - 1, 0, -1):
                if preemption_bound is not None and pre + (1 if still else 0) > preemption_bound:
                    continue
                if deviation_bound is not None and dev + 1 > deviation_bound:
                    continue
                stack.append(list(x.choices[:i]) + [alt])
