"""Element catalogue: every concrete exported element class (read from skfem.element.__all__
at run time) plus parametrised instances and wrappers, with a hand-written family table.

An element found in ``__all__`` that the table does not know is returned with
family='unclassified' so that checks report it instead of silently skipping or guessing.
"""
from __future__ import annotations

import warnings

ABSTRACT = {'DiscreteField', 'Element', 'ElementH1', 'ElementVector', 'ElementVectorH1', 'ElementHdiv',
            'ElementHcurl', 'ElementGlobal', 'ElementDG', 'ElementComposite', 'ElementTriDG', 'ElementQuadDG',
            'ElementTetDG', 'ElementHexDG', 'ElementLinePp', 'ElementQuadP'}

# family: continuity the element promises across interior facets
#   H1      values continuous            Hdiv  normal component     Hcurl  tangential component
#   HHJ     normal-normal component      L2    nothing (broken / cellwise / skeleton)
#   CR      facet-midpoint values (== facet means for P1)           Morley / P15 / Hermite / C1: see C03
# nodal: phi_i(x_j) = delta_ij on element.doflocs;  pou: value functions sum to one
# deg: true polynomial degree (total for simplices, per-direction for tensor cells)
TABLE = {
    # name:                (family, nodal, pou, deg)
    'ElementLineP0': ('L2', True, True, 0), 'ElementLineP1': ('H1', True, True, 1),
    'ElementLineP2': ('H1', True, True, 2), 'ElementLineP1DG': ('L2', True, True, 1),
    'ElementLineMini': ('H1', True, False, 2), 'ElementLineHermite': ('C1', False, False, 3),
    'ElementTriP0': ('L2', True, True, 0), 'ElementTriP1': ('H1', True, True, 1),
    'ElementTriP2': ('H1', True, True, 2), 'ElementTriP3': ('H1', True, True, 3),
    'ElementTriP4': ('H1', True, True, 4), 'ElementTriCR': ('CR', True, True, 1),
    'ElementTriCCR': ('H1', True, False, 3), 'ElementTriRT0': ('Hdiv', False, False, 1),
    'ElementTriRT1': ('Hdiv', False, False, 1), 'ElementTriRT2': ('Hdiv', False, False, 2),
    'ElementTriBDM1': ('Hdiv', False, False, 1), 'ElementTriMorley': ('Morley', False, False, 2),
    'ElementTri15ParamPlate': ('P15', False, False, 4), 'ElementTriArgyris': ('C1', False, False, 5),
    'ElementTriMini': ('H1', True, False, 3), 'ElementTriHermite': ('Hermite', False, False, 3),
    'ElementTriP1DG': ('L2', True, True, 1), 'ElementTriSkeletonP0': ('L2', False, False, 0),
    'ElementTriSkeletonP1': ('L2', False, False, 1), 'ElementTriP1G': ('H1', False, True, 1),
    'ElementTriP2G': ('H1', False, True, 2), 'ElementTriP1B': ('H1', False, False, 3),
    'ElementTriP2B': ('H1', False, False, 3), 'ElementTriN1': ('Hcurl', False, False, 1),
    'ElementTriN2': ('Hcurl', False, False, 2), 'ElementTriN3': ('Hcurl', False, False, 3),
    'ElementTriHHJ0': ('HHJ', False, False, 0), 'ElementTriHHJ1': ('HHJ', False, False, 1),
    'ElementQuad0': ('L2', True, True, 0), 'ElementQuad1': ('H1', True, True, 1),
    'ElementQuad2': ('H1', True, True, 2), 'ElementQuadS2': ('H1', True, True, 2),
    'ElementQuadBFS': ('C1', False, False, 3), 'ElementQuadRT0': ('Hdiv', False, False, 1),
    'ElementQuadRT1': ('Hdiv', False, False, 1), 'ElementQuad1DG': ('L2', True, True, 1),
    'ElementQuadN1': ('Hcurl', False, False, 1), 'ElementQuad2G': ('H1', False, True, 2),
    'ElementTetP0': ('L2', True, True, 0), 'ElementTetP1': ('H1', True, True, 1),
    'ElementTetP2': ('H1', True, True, 2), 'ElementTetRT0': ('Hdiv', False, False, 1),
    'ElementTetRT1': ('Hdiv', False, False, 1), 'ElementTetN0': ('Hcurl', False, False, 1),
    'ElementTetN1': ('Hcurl', False, False, 1), 'ElementTetMini': ('H1', True, False, 4),
    'ElementTetCR': ('CR', True, True, 1), 'ElementTetCCR': ('H1', True, False, 4),
    'ElementTetSkeletonP0': ('L2', False, False, 0),
    'ElementHex0': ('L2', True, True, 0), 'ElementHex1': ('H1', True, True, 1),
    'ElementHex2': ('H1', True, True, 2), 'ElementHexS2': ('H1', True, True, 2),
    'ElementHex1DG': ('L2', True, True, 1), 'ElementHexRT1': ('Hdiv', False, False, 1),
    'ElementHexSkeleton0': ('L2', False, False, 0), 'ElementHexC1': ('C1', False, False, 3),
    'ElementWedge1': ('H1', True, True, 1),
}

KIND = {'RefLine': 'line', 'RefTri': 'tri', 'RefQuad': 'quad', 'RefTet': 'tet', 'RefHex': 'hex',
        'RefWedge': 'wedge'}

# elements that are only defined on axis-aligned (rectangular / box) cells
AXIS_ALIGNED_ONLY = {'ElementQuadBFS', 'ElementHexC1', 'ElementQuad2G'}


class Entry:
    def __init__(self, name, make, family, nodal, pou, deg, kind, wrapper=None):
        self.name = name
        self.make = make            # () -> fresh element object
        self.family = family
        self.nodal = nodal
        self.pou = pou
        self.deg = deg
        self.kind = kind
        self.wrapper = wrapper      # None | 'vector' | 'dg' | 'composite'

    def __repr__(self):
        return f"<{self.name} {self.family} {self.kind}>"


def _mk(cls, *a):
    def make():
        with warnings.catch_warnings():
            warnings.simplefilter('ignore')
            return cls(*a)
    return make


def base_entries(pmax_line=3, pmax_quad=3):
    import skfem.element as E
    out = []
    for n in E.__all__:
        if n in ABSTRACT:
            continue
        cls = getattr(E, n)
        try:
            e = _mk(cls)()
        except Exception:
            out.append(Entry(n, _mk(cls), 'unclassified', False, False, 0, None))
            continue
        kind = KIND.get(e.refdom.__name__)
        fam = TABLE.get(n)
        if fam is None:
            out.append(Entry(n, _mk(cls), 'unclassified', False, False, 0, kind))
        else:
            out.append(Entry(n, _mk(cls), fam[0], fam[1], fam[2], fam[3], kind))
    for p in range(1, pmax_line + 1):
        out.append(Entry(f'ElementLinePp({p})', _mk(E.ElementLinePp, p), 'H1', p == 1, p == 1, p, 'line'))
    for p in range(1, pmax_quad + 1):
        out.append(Entry(f'ElementQuadP({p})', _mk(E.ElementQuadP, p), 'H1', p == 1, p == 1, p, 'quad'))
    return out


def wrapper_entries():
    """Vector / DG / composite wrappers with different nodal/edge/facet/interior counts."""
    import skfem.element as E
    out = []

    def vec(name, cls, kind, fam='H1'):
        out.append(Entry(f'ElementVector({name})', lambda: E.ElementVector(cls()), fam, False, False, 0, kind, 'vector'))

    def dg(name, cls, kind):
        out.append(Entry(f'ElementDG({name})', lambda: E.ElementDG(cls()), 'L2', False, False, 0, kind, 'dg'))

    def comp(label, kind, *classes):
        out.append(Entry(f'Composite({label})', lambda: E.ElementComposite(*[c() for c in classes]), 'mixed', False,
                         False, 0, kind, 'composite'))
    vec('LineP2', E.ElementLineP2, 'line')
    vec('TriP2', E.ElementTriP2, 'tri')
    vec('TriP1', E.ElementTriP1, 'tri')
    vec('TriCR', E.ElementTriCR, 'tri', 'CR')
    vec('Quad2', E.ElementQuad2, 'quad')
    vec('TetP2', E.ElementTetP2, 'tet')
    vec('TetCCR', E.ElementTetCCR, 'tet')
    vec('Hex1', E.ElementHex1, 'hex')
    vec('HexS2', E.ElementHexS2, 'hex')
    # explicit number of components different from the dimension of the reference cell
    out.append(Entry('ElementVector(LineP2,2)', lambda: E.ElementVector(E.ElementLineP2(), 2), 'H1', False, False, 0, 'line', 'vector'))
    out.append(Entry('ElementVector(TriP2,3)', lambda: E.ElementVector(E.ElementTriP2(), 3), 'H1', False, False, 0, 'tri', 'vector'))
    out.append(Entry('ElementVector(TriCR,1)', lambda: E.ElementVector(E.ElementTriCR(), 1), 'CR', False, False, 0, 'tri', 'vector'))
    out.append(Entry('ElementVector(Quad2,3)', lambda: E.ElementVector(E.ElementQuad2(), 3), 'H1', False, False, 0, 'quad', 'vector'))
    out.append(Entry('ElementVector(TetCCR,2)', lambda: E.ElementVector(E.ElementTetCCR(), 2), 'H1', False, False, 0, 'tet', 'vector'))
    out.append(Entry('ElementVector(Hex2,2)', lambda: E.ElementVector(E.ElementHex2(), 2), 'H1', False, False, 0, 'hex', 'vector'))
    # rank-2 tensor-valued (non-symmetric) elements
    out.append(Entry('ElementVector(Vector(TriP1))', lambda: E.ElementVector(E.ElementVector(E.ElementTriP1())), 'H1', False, False, 0,
                     'tri', 'vector'))
    out.append(Entry('ElementVector(Vector(TetP1))', lambda: E.ElementVector(E.ElementVector(E.ElementTetP1())), 'H1', False, False, 0,
                     'tet', 'vector'))
    # inner elements with more than one DOF on an entity kind (strided vs contiguous component numbering)
    out.append(Entry('ElementVector(TriP3)', lambda: E.ElementVector(E.ElementTriP3()), 'H1', False, False, 0, 'tri', 'vector'))
    out.append(Entry('ElementVector(LinePp(3))', lambda: E.ElementVector(E.ElementLinePp(3)), 'H1', False, False, 0, 'line', 'vector'))
    out.append(Entry('ElementVector(DG(TriP1))', lambda: E.ElementVector(E.ElementDG(E.ElementTriP1())), 'L2', False, False, 0, 'tri', 'vector'))
    out.append(Entry('ElementVector(TetMini)', lambda: E.ElementVector(E.ElementTetMini()), 'H1', False, False, 0, 'tet', 'vector'))
    dg('LineP2', E.ElementLineP2, 'line')
    dg('TriP2', E.ElementTriP2, 'tri')
    dg('TriRT1', E.ElementTriRT1, 'tri')
    dg('Quad2', E.ElementQuad2, 'quad')
    dg('TetP2', E.ElementTetP2, 'tet')
    dg('Hex2', E.ElementHex2, 'hex')
    comp('LineP2*LineP0', 'line', E.ElementLineP2, E.ElementLineP0)
    comp('TriP2*TriP1', 'tri', E.ElementTriP2, E.ElementTriP1)
    comp('TriP1*TriP0', 'tri', E.ElementTriP1, E.ElementTriP0)
    comp('TriRT1*TriP0', 'tri', E.ElementTriRT1, E.ElementTriP0)
    comp('TriP3*TriCR*TriP0', 'tri', E.ElementTriP3, E.ElementTriCR, E.ElementTriP0)
    out.append(Entry('Composite(Vector(TriP2)*TriP1)', lambda: E.ElementComposite(E.ElementVector(E.ElementTriP2()),
                                                                                  E.ElementTriP1()),
                     'mixed', False, False, 0, 'tri', 'composite'))
    comp('Quad2*Quad1', 'quad', E.ElementQuad2, E.ElementQuad1)
    comp('QuadRT1*Quad0', 'quad', E.ElementQuadRT1, E.ElementQuad0)
    comp('TetP2*TetP1', 'tet', E.ElementTetP2, E.ElementTetP1)
    comp('TetN1*TetRT1', 'tet', E.ElementTetN1, E.ElementTetRT1)
    comp('TetCCR*TetP0', 'tet', E.ElementTetCCR, E.ElementTetP0)
    comp('TetP2*TetCR', 'tet', E.ElementTetP2, E.ElementTetCR)
    # edge DOFs followed by facet / interior blocks with a different count per entity
    out.append(Entry('Composite(Vector(TetP2)*TetP0)', lambda: E.ElementComposite(E.ElementVector(E.ElementTetP2()), E.ElementTetP0()),
                     'mixed', False, False, 0, 'tet', 'composite'))
    comp('TetCCR*TetN0', 'tet', E.ElementTetCCR, E.ElementTetN0)
    out.append(Entry('Composite(TetP2*DG(TetP1))', lambda: E.ElementComposite(E.ElementTetP2(), E.ElementDG(E.ElementTetP1())),
                     'mixed', False, False, 0, 'tet', 'composite'))
    comp('HexS2*Hex0', 'hex', E.ElementHexS2, E.ElementHex0)
    comp('TetCR*TetCCR*TetP2', 'tet', E.ElementTetCR, E.ElementTetCCR, E.ElementTetP2)
    comp('HexRT1*HexS2*Hex2', 'hex', E.ElementHexRT1, E.ElementHexS2, E.ElementHex2)
    out.append(Entry('Composite(Vector(TetP2)*TetP1)', lambda: E.ElementComposite(E.ElementVector(E.ElementTetP2()),
                                                                                  E.ElementTetP1()),
                     'mixed', False, False, 0, 'tet', 'composite'))
    comp('Hex2*Hex1', 'hex', E.ElementHex2, E.ElementHex1)
    comp('HexRT1*Hex0', 'hex', E.ElementHexRT1, E.ElementHex0)
    comp('HexS2*HexRT1', 'hex', E.ElementHexS2, E.ElementHexRT1)
    return out


def entries(kind=None, wrappers=True, pmax_line=3, pmax_quad=3):
    es = base_entries(pmax_line, pmax_quad) + (wrapper_entries() if wrappers else [])
    if kind is not None:
        es = [e for e in es if e.kind == kind or e.kind is None]
    return es


def by_name(name):
    for e in entries(pmax_line=5, pmax_quad=4):
        if e.name == name:
            return e
    raise KeyError(name)
