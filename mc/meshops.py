"""Shared oracles for mesh transitions (C12, C13, C18): tag saturation, exact parent maps,
facet containment, tag comparison as geometric entity sets, log capture."""
from __future__ import annotations

import itertools
import logging
from fractions import Fraction as Fr

import numpy as np

from . import exact as ex
from .topo import REF, SIMPLICES, fpt, cell_measure, Topo


# ---------------------------------------------------------------------------------------
# tag saturation: one mesh carries every subset (within a bound) as separately named tags
# ---------------------------------------------------------------------------------------

def subsets_bounded(n, full_upto=6, pair_cap=40):
    """All non-empty subsets for n <= full_upto; otherwise singletons, pairs (capped, spread),
    complements of singletons, 'even' and 'first half'."""
    if n <= full_upto:
        out = []
        for k in range(1, n + 1):
            out += [tuple(c) for c in itertools.combinations(range(n), k)]
        return out
    out = [(i,) for i in range(n)]
    pairs = list(itertools.combinations(range(n), 2))
    if len(pairs) > pair_cap:
        step = len(pairs) / pair_cap
        pairs = [pairs[int(i * step)] for i in range(pair_cap)]
    out += pairs
    if n <= 16:
        out += [tuple(j for j in range(n) if j != i) for i in range(n)]
    out.append(tuple(range(0, n, 2)))
    out.append(tuple(range(n // 2)))
    out.append(tuple(range(n)))
    return list(dict.fromkeys(out))


def tagname(prefix, idx):
    return prefix + '_'.join(map(str, idx))


def saturate(m, sub_full_upto=6, facet_full_upto=0, with_empty=True, oriented=False):
    """Return (subdomains, boundaries) dicts naming bounded-exhaustive subsets of cells / facets
    (interior facets included)."""
    nt = m.t.shape[1]
    nf = m.facets.shape[1]
    subs = {tagname('s', s): np.array(s, dtype=np.int32) for s in subsets_bounded(nt, sub_full_upto)}
    bnds = {tagname('b', s): np.array(s, dtype=np.int32)
            for s in subsets_bounded(nf, facet_full_upto, pair_cap=30)}
    bf = m.boundary_facets()
    bnds['bBND'] = np.array(bf, dtype=np.int32)
    intf = np.setdiff1d(np.arange(nf), bf).astype(np.int32)
    if len(intf):
        bnds['bINT'] = intf
    if with_empty:
        subs['sEMPTY'] = np.array([], dtype=np.int32)
        bnds['bEMPTY'] = np.array([], dtype=np.int32)
    return subs, bnds


def with_saturated_tags(m, **kw):
    subs, bnds = saturate(m, **kw)
    return m.with_subdomains(subs).with_boundaries(bnds)


# ---------------------------------------------------------------------------------------
# exact geometry helpers
# ---------------------------------------------------------------------------------------

class Geo:
    """Exact vertex coordinates of a mesh, cached."""

    def __init__(self, kind, p, t):
        self.kind = kind
        self.p = np.asarray(p, dtype=float)
        self.nn = REF[kind]['nn']
        self.t = np.asarray(t)[:self.nn]
        self._F = {}

    def v(self, i):
        i = int(i)
        if i not in self._F:
            self._F[i] = fpt(self.p, i)
        return self._F[i]

    def cell_pts(self, c):
        return [self.v(i) for i in self.t[:, c]]

    def cell_measure(self, c):
        if self.kind == 'hex':
            # exact volume of the trilinear cell (faces need not be planar): integral of det DF over the unit cube
            return abs(hex_volume_exact(self.cell_pts(c)))
        return cell_measure(self.kind, self.cell_pts(c))

    def centroid(self, c):
        pts = self.cell_pts(c)
        d = len(pts[0])
        return tuple(sum(q[k] for q in pts) / len(pts) for k in range(d))


_HEXP = [(1, 1, 1), (1, 1, 0), (1, 0, 1), (0, 1, 1), (1, 0, 0), (0, 1, 0), (0, 0, 1), (0, 0, 0)]   # skfem RefHex vertex order
_HEXSH = None


def _hex_shape_polys():
    global _HEXSH
    if _HEXSH is None:
        from .exact import Poly
        X = [Poly.var(3, i) for i in range(3)]
        one = Poly.const(3, 1)
        _HEXSH = []
        for v in _HEXP:
            f = one
            for k in range(3):
                f = f * (X[k] if v[k] == 1 else one - X[k])
            _HEXSH.append(f)
    return _HEXSH


def hex_volume_exact(pts):
    from .exact import Poly, det_poly
    sh = _hex_shape_polys()
    Fm = []
    for i in range(3):
        acc = Poly(3)
        for k, s_ in enumerate(sh):
            acc = acc + s_ * pts[k][i]
        Fm.append(acc)
    J = [[Fm[i].diff(j) for j in range(3)] for i in range(3)]
    return det_poly(J).integrate_ref('hex')


def hex_planar(pts):
    for f in REF['hex']['facets']:
        q = [pts[i] for i in f]
        M = [[q[k][d] - q[0][d] for d in range(3)] for k in (1, 2, 3)]
        if ex.det_fr(M) != 0:
            return False
    return True


def point_in_closed_hex_trilinear(pts, x, tol=1e-9):
    """Closed containment in a trilinear hexahedron with possibly non-planar faces: own Newton inverse of the
    trilinear map in floating point (tolerance tol in reference coordinates)."""
    P = np.array([[float(c) for c in q] for q in pts])          # (8, 3)
    xf = np.array([float(c) for c in x])
    V = np.array(_HEXP, dtype=float)
    xi = np.full(3, .5)
    for _ in range(60):
        N = np.ones(8)
        dN = np.zeros((8, 3))
        for k in range(8):
            f = [xi[d] if V[k, d] == 1 else 1 - xi[d] for d in range(3)]
            N[k] = f[0] * f[1] * f[2]
            for d in range(3):
                g = 1.0 if V[k, d] == 1 else -1.0
                o = [f[e] for e in range(3) if e != d]
                dN[k, d] = g * o[0] * o[1]
        r = N @ P - xf
        Jm = P.T @ dN
        try:
            dx = np.linalg.solve(Jm, r)
        except np.linalg.LinAlgError:
            return False
        xi = xi - dx
        if np.abs(dx).max() < 1e-14:
            break
    scale = 1 + np.abs(P).max()
    f_ok = np.abs(r).max() < 1e-9 * scale
    return bool(f_ok and (xi >= -tol).all() and (xi <= 1 + tol).all())


def point_in_closed_cell(kind, pts, x):
    if kind == 'hex' and not hex_planar(pts):
        return point_in_closed_hex_trilinear(pts, x)
    for s in SIMPLICES[kind]:
        sp = [pts[i] for i in s]
        lam = ex.barycentric(sp, x)
        if lam is not None and all(l >= 0 for l in lam):
            return True
    return False


def point_in_closed_face(face_pts, x):
    """x in the closed facet: a point (1-D meshes), a segment (2-D), a planar convex polygon (3-D).
    face_pts in cyclic order."""
    n = len(face_pts)
    if n == 1:
        return tuple(face_pts[0]) == tuple(x)
    if n == 2:
        a, b = face_pts
        d = [bb - aa for aa, bb in zip(a, b)]
        r = [xx - aa for aa, xx in zip(a, x)]
        k = next((i for i, di in enumerate(d) if di != 0), None)
        if k is None:
            return tuple(a) == tuple(x)
        s = r[k] / d[k]
        return 0 <= s <= 1 and all(ri == s * di for ri, di in zip(r, d))

    def sub(u, v):
        return [a - b for a, b in zip(u, v)]

    def cross(u, v):
        return [u[1] * v[2] - u[2] * v[1], u[2] * v[0] - u[0] * v[2], u[0] * v[1] - u[1] * v[0]]

    def dot(u, v):
        return sum(a * b for a, b in zip(u, v))
    nrm = cross(sub(face_pts[1], face_pts[0]), sub(face_pts[2], face_pts[0]))
    if dot(nrm, sub(x, face_pts[0])) != 0:
        return False
    sgn = 0
    for i in range(n):
        a, b = face_pts[i], face_pts[(i + 1) % n]
        s = dot(cross(sub(b, a), sub(x, a)), nrm)
        if s == 0:
            continue
        if sgn == 0:
            sgn = 1 if s > 0 else -1
        elif (s > 0) != (sgn > 0):
            return False
    return True


def cyclic_facet(kind, ordered):
    """Facet vertex tuple in cyclic order for geometric tests (library tables are cyclic for quads
    of hex/wedge as given by REF; sorted storage is handled by the caller passing REF order)."""
    return list(ordered)


def parent_map(kind, g0: Geo, g1: Geo):
    """For every cell of mesh 1 the cell of mesh 0 that contains it (exact).  Returns (parents,
    problems)."""
    nt0, nt1 = g0.t.shape[1], g1.t.shape[1]
    p0 = g0.p
    lo = np.array([p0[:, g0.t[:, c]].min(axis=1) for c in range(nt0)])
    hi = np.array([p0[:, g0.t[:, c]].max(axis=1) for c in range(nt0)])
    parents = [-1] * nt1
    probs = []
    pts0 = [g0.cell_pts(c) for c in range(nt0)]
    for c1 in range(nt1):
        xc = g1.centroid(c1)
        xf = np.array([float(v) for v in xc])
        cand = np.nonzero(((xf >= lo - 1e-9) & (xf <= hi + 1e-9)).all(axis=1))[0]
        found = None
        for c0 in cand:
            if point_in_closed_cell(kind, pts0[c0], xc):
                found = int(c0)
                break
        if found is None:
            probs.append(f"new cell {c1} (centroid {xf.tolist()}) lies in no old cell")
            continue
        for q in g1.cell_pts(c1):
            if not point_in_closed_cell(kind, pts0[found], q):
                probs.append(f"new cell {c1} is not contained in old cell {found} "
                             f"(vertex {[float(v) for v in q]} outside)")
                break
        parents[c1] = found
    return parents, probs


def facet_vertex_lists(kind, m):
    """Per facet index the vertex ids in a cyclic order (taken from the owning cell's local table,
    so sorted storage of quadrilateral facets does not matter)."""
    ref = REF[kind]
    out = {}
    t = np.asarray(m.t)
    t2f = m.t2f
    for c in range(t.shape[1]):
        for k, f in enumerate(ref['facets']):
            j = int(t2f[k, c])
            if j not in out:
                out[j] = [int(t[i, c]) for i in f]
    return out


def facet_parent_map(kind, m0, m1, g0, g1, parents):
    """For every facet of mesh 1: the index of the facet of mesh 0 containing it, or -1 if it is
    interior to an old cell (exact)."""
    fv0 = facet_vertex_lists(kind, m0)
    fv1 = facet_vertex_lists(kind, m1)
    f2t1 = m1.f2t
    t2f0 = m0.t2f
    res = {}
    for j1, verts in fv1.items():
        c1 = int(f2t1[0, j1])
        P = parents[c1]
        res[j1] = -1
        if P < 0:
            continue
        pts = [g1.v(v) for v in verts]
        for k in range(t2f0.shape[0]):
            j0 = int(t2f0[k, P])
            fpts = [g0.v(v) for v in fv0[j0]]
            if all(point_in_closed_face(fpts, q) for q in pts):
                res[j1] = j0
                break
    return res


def tag_sets(tags):
    if tags is None:
        return None
    return {k: set(int(i) for i in np.asarray(v).flatten()) for k, v in tags.items()}


class LogCapture(logging.Handler):
    """Collect WARNING+ records of the skfem loggers during a call."""

    def __init__(self):
        super().__init__(level=logging.WARNING)
        self.records = []

    def emit(self, record):
        self.records.append(record.getMessage())

    def __enter__(self):
        self.lg = logging.getLogger('skfem')
        self.lg.addHandler(self)
        self._old = self.lg.level
        return self

    def __exit__(self, *a):
        self.lg.removeHandler(self)
        return False


# ---------------------------------------------------------------------------------------
# the refinement relation (C12 uniform, C13 adaptive)
# ---------------------------------------------------------------------------------------

FIRST_ORDER = {'MeshLine1', 'MeshTri1', 'MeshQuad1', 'MeshTet1', 'MeshHex1', 'MeshWedge1'}


def nvertices(m, kind):
    return int(np.asarray(m.t)[:REF[kind]['nn']].max()) + 1


def check_refinement(pid, kind, m0, m1, records, bad, out, uniform_k=None, marked=None,
                     boundaries_required=None, check_boundaries=True):
    """Relation between a straight-sided mesh m0 (with tags) and its refinement m1.

    bad(what, msg) reports a violation; returns nothing.  uniform_k: number of uniform
    refinements (cell count 2^(d k)); marked: set of marked cells for adaptive refinement.
    """
    from .topo import geometry_problems, hex_faces_planar
    cls = type(m0).__name__
    nn = REF[kind]['nn']
    dim = REF[kind]['dim']
    if type(m1) is not type(m0):
        bad('class', f"refined mesh has class {type(m1).__name__}")
        return
    nv0 = nvertices(m0, kind)
    nv1 = nvertices(m1, kind)
    t0 = np.asarray(m0.t)[:nn]
    t1 = np.asarray(m1.t)[:nn]
    # 1. old vertices keep index and position
    if nv1 < nv0 or not np.array_equal(m1.p[:, :nv0], m0.p[:, :nv0]):
        bad('old-vertices', "original vertices do not keep their indices/positions")
        return
    # 2. validity (duplicates, degenerate cells, hanging nodes) on the vertex mesh
    p1v = m1.p[:, :nv1]
    probs = geometry_problems(kind, p1v, t1)
    # points that no cell used before may stay unused (a mesh may carry spare points); new unused points may not appear
    unused1 = set(range(nv1)) - set(int(v) for v in t1.flatten())
    unused0 = set(range(m0.p.shape[1])) - set(int(v) for v in t0.flatten())
    if unused1 <= unused0:
        probs = [q for q in probs if 'not referenced' not in q]
    if probs:
        bad('invalid-mesh', '; '.join(probs[:3]))
        return
    # 3. count
    if uniform_k is not None and t1.shape[1] != t0.shape[1] * 2 ** (dim * uniform_k):
        bad('cell-count', f"{t1.shape[1]} cells after {uniform_k} uniform refinements of {t0.shape[1]}")
    # 4. containment and exact measures
    g0 = Geo(kind, m0.p[:, :nv0], t0)
    g1 = Geo(kind, p1v, t1)
    parents, probs = parent_map(kind, g0, g1)
    if probs:
        bad('containment', '; '.join(probs[:3]))
        return
    children = {}
    for c1, P in enumerate(parents):
        children.setdefault(P, []).append(c1)
    planar = True
    if planar:
        for P in range(t0.shape[1]):
            tot = sum((g1.cell_measure(c) for c in children.get(P, [])), Fr(0))
            if tot != g0.cell_measure(P):
                bad('measure', f"children of old cell {P} have total measure {float(tot)} != {float(g0.cell_measure(P))}")
                return
    if marked is not None:
        for P in marked:
            if len(children.get(int(P), [])) < 2:
                bad('marked-not-split', f"marked cell {int(P)} has {len(children.get(int(P), []))} child(ren)")
                return
    # 5. named subdomains
    s0, s1 = tag_sets(m0.subdomains), tag_sets(m1.subdomains)
    warned = ' | '.join(records)
    if s0 is not None:
        if s1 is None:
            if cls in FIRST_ORDER:
                bad('subdomains-dropped', "named subdomains were dropped (propagation is required for this class)")
            elif 'ubdomain' not in warned:
                bad('subdomains-dropped-silently', "named subdomains dropped without a warning")
        else:
            for name, cells0 in s0.items():
                want = {c1 for c1, P in enumerate(parents) if P in cells0}
                got = s1.get(name)
                if got is None:
                    bad('subdomain-name-lost', f"subdomain '{name}' missing after refinement")
                    break
                if got != want:
                    bad('subdomains', f"subdomain '{name}' (old cells {sorted(cells0)}) now names cells "
                        f"{sorted(got)[:12]} but the children of those cells are {sorted(want)[:12]}")
                    break
            out.outcome((cls, 'subdomains-propagated'))
    # 6. named boundaries
    if not check_boundaries:
        return
    b0, b1 = tag_sets(m0.boundaries), tag_sets(m1.boundaries)
    if b0 is not None:
        req = boundaries_required if boundaries_required is not None else cls in ('MeshLine1', 'MeshTri1', 'MeshQuad1')
        if b1 is None:
            if req:
                bad('boundaries-dropped', "named boundaries were dropped (propagation is required for this class)")
            elif 'oundar' not in warned:
                bad('boundaries-dropped-silently', "named boundaries dropped without a warning")
            else:
                out.outcome((cls, 'boundaries-dropped-with-warning'))
        else:
            fpar = facet_parent_map(kind, m0, m1, g0, g1, parents)
            for name, fac0 in b0.items():
                want = {j1 for j1, j0 in fpar.items() if j0 in fac0}
                got = b1.get(name)
                if got is None:
                    bad('boundary-name-lost', f"boundary '{name}' missing after refinement")
                    break
                if got != want:
                    bad('boundaries', f"boundary '{name}' (old facets {sorted(fac0)}) now names facets "
                        f"{sorted(got)[:12]} but the new facets lying in those are {sorted(want)[:12]}")
                    break
            out.outcome((cls, 'boundaries-propagated'))
