"""Exact-arithmetic kit: the 'boring' reference models (fractions, polynomials, geometry)."""
from __future__ import annotations

import itertools
import math
from fractions import Fraction as Fr

import numpy as np


def fr(x):
    """Exact Fraction of a float (binary floats are rationals) or int."""
    if isinstance(x, Fr):
        return x
    if isinstance(x, (int, np.integer)):
        return Fr(int(x))
    return Fr(float(x))


# ---------------------------------------------------------------------------------------
# monomial integrals over the reference cells
# ---------------------------------------------------------------------------------------

def int_line(a):
    return Fr(1, a + 1)


def int_tri(a, b):
    return Fr(math.factorial(a) * math.factorial(b), math.factorial(a + b + 2))


def int_tet(a, b, c):
    return Fr(math.factorial(a) * math.factorial(b) * math.factorial(c),
              math.factorial(a + b + c + 3))


def ref_monomial_integral(kind, e):
    """Exact integral of x^e over the reference cell of the given kind."""
    if kind == 'point':
        return Fr(1)
    if kind == 'line':
        return int_line(e[0])
    if kind == 'tri':
        return int_tri(e[0], e[1])
    if kind == 'tet':
        return int_tet(*e)
    if kind == 'quad':
        return int_line(e[0]) * int_line(e[1])
    if kind == 'hex':
        return int_line(e[0]) * int_line(e[1]) * int_line(e[2])
    if kind == 'wedge':
        return int_tri(e[0], e[1]) * int_line(e[2])
    raise KeyError(kind)


REF_MEASURE = {'point': Fr(1), 'line': Fr(1), 'tri': Fr(1, 2), 'quad': Fr(1), 'tet': Fr(1, 6),
               'hex': Fr(1), 'wedge': Fr(1, 2)}
REF_DIM = {'point': 0, 'line': 1, 'tri': 2, 'quad': 2, 'tet': 3, 'hex': 3, 'wedge': 3}


def monomials_total(dim, n):
    """All exponent tuples of total degree <= n."""
    return [e for e in itertools.product(range(n + 1), repeat=dim) if sum(e) <= n]


def monomials_box(dim, n):
    """All exponent tuples with every exponent <= n."""
    return list(itertools.product(range(n + 1), repeat=dim))


def admissible_monomials(kind, n):
    """Monomials a rule of order n must integrate exactly on this reference cell."""
    n = max(n, 0)
    if kind == 'point':
        return [()]
    if kind in ('line', 'tri', 'tet'):
        return monomials_total(REF_DIM[kind], n)
    if kind in ('quad', 'hex'):
        return monomials_box(REF_DIM[kind], n)
    if kind == 'wedge':
        return [(a, b, c) for (a, b) in monomials_total(2, n) for c in range(n + 1)]
    raise KeyError(kind)


def in_closed_ref(kind, X, tol=1e-14):
    """Boolean per node: inside the closed reference cell (tiny slack for table rounding)."""
    X = np.asarray(X)
    if kind == 'point':
        return np.ones(X.shape[1], dtype=bool)
    lo = (X >= -tol).all(axis=0)
    if kind in ('line', 'quad', 'hex'):
        return lo & (X <= 1 + tol).all(axis=0)
    if kind in ('tri', 'tet'):
        return lo & (X.sum(axis=0) <= 1 + tol)
    if kind == 'wedge':
        return lo & (X[0] + X[1] <= 1 + tol) & (X[2] <= 1 + tol)
    raise KeyError(kind)


# ---------------------------------------------------------------------------------------
# multivariate polynomials over Fraction
# ---------------------------------------------------------------------------------------

class Poly:
    """Sparse multivariate polynomial with Fraction coefficients: {exponent tuple: coeff}."""

    __slots__ = ('dim', 'c')

    def __init__(self, dim, c=None):
        self.dim = dim
        self.c = {k: v for k, v in (c or {}).items() if v != 0}

    @staticmethod
    def const(dim, v):
        return Poly(dim, {(0,) * dim: fr(v)})

    @staticmethod
    def var(dim, i):
        e = [0] * dim
        e[i] = 1
        return Poly(dim, {tuple(e): Fr(1)})

    @staticmethod
    def monomial(dim, e):
        return Poly(dim, {tuple(e): Fr(1)})

    def __add__(self, o):
        if not isinstance(o, Poly):
            o = Poly.const(self.dim, o)
        c = dict(self.c)
        for k, v in o.c.items():
            c[k] = c.get(k, 0) + v
        return Poly(self.dim, c)

    __radd__ = __add__

    def __neg__(self):
        return Poly(self.dim, {k: -v for k, v in self.c.items()})

    def __sub__(self, o):
        if not isinstance(o, Poly):
            o = Poly.const(self.dim, o)
        return self + (-o)

    def __rsub__(self, o):
        return (-self) + o

    def __mul__(self, o):
        if not isinstance(o, Poly):
            o = fr(o)
            return Poly(self.dim, {k: v * o for k, v in self.c.items()})
        c = {}
        for k1, v1 in self.c.items():
            for k2, v2 in o.c.items():
                k = tuple(a + b for a, b in zip(k1, k2))
                c[k] = c.get(k, 0) + v1 * v2
        return Poly(self.dim, c)

    __rmul__ = __mul__

    def __pow__(self, n):
        r = Poly.const(self.dim, 1)
        for _ in range(n):
            r = r * self
        return r

    def diff(self, i):
        c = {}
        for k, v in self.c.items():
            if k[i] > 0:
                kk = list(k)
                kk[i] -= 1
                c[tuple(kk)] = c.get(tuple(kk), 0) + v * k[i]
        return Poly(self.dim, c)

    def degree(self):
        return max((sum(k) for k in self.c), default=0)

    def degree_per_dir(self):
        return max((max(k) for k in self.c if k), default=0)

    def is_zero(self):
        return not self.c

    def __call__(self, *x):
        tot = Fr(0)
        for k, v in self.c.items():
            t = v
            for xi, ki in zip(x, k):
                if ki:
                    t = t * fr(xi) ** ki
            tot += t
        return tot

    def evalf(self, X):
        """Float evaluation on an array X of shape (dim, ...)."""
        X = np.asarray(X, dtype=float)
        out = np.zeros(X.shape[1:])
        for k, v in self.c.items():
            t = float(v) * np.ones(X.shape[1:])
            for d, kd in enumerate(k):
                if kd:
                    t = t * X[d] ** kd
            out = out + t
        return out

    def compose(self, subs):
        """Substitute variable i by Poly subs[i] (all of one common dim)."""
        nd = subs[0].dim
        out = Poly(nd)
        cache = {}
        for k, v in self.c.items():
            term = Poly.const(nd, v)
            for i, ki in enumerate(k):
                if ki:
                    key = (i, ki)
                    if key not in cache:
                        cache[key] = subs[i] ** ki
                    term = term * cache[key]
            out = out + term
        return out

    def integrate_ref(self, kind):
        return sum((v * ref_monomial_integral(kind, k) for k, v in self.c.items()), Fr(0))


def det_poly(M):
    """Determinant of a small square matrix of Poly/Fraction entries (Laplace expansion)."""
    n = len(M)
    if n == 1:
        return M[0][0]
    if n == 2:
        return M[0][0] * M[1][1] - M[0][1] * M[1][0]
    tot = None
    for j in range(n):
        minor = [[M[i][k] for k in range(n) if k != j] for i in range(1, n)]
        term = M[0][j] * det_poly(minor)
        if j % 2:
            term = -term
        tot = term if tot is None else tot + term
    return tot


def det_fr(M):
    n = len(M)
    M = [[fr(x) for x in row] for row in M]
    if n == 0:
        return Fr(1)
    if n == 1:
        return M[0][0]
    if n == 2:
        return M[0][0] * M[1][1] - M[0][1] * M[1][0]
    if n == 3:
        return (M[0][0] * (M[1][1] * M[2][2] - M[1][2] * M[2][1])
                - M[0][1] * (M[1][0] * M[2][2] - M[1][2] * M[2][0])
                + M[0][2] * (M[1][0] * M[2][1] - M[1][1] * M[2][0]))
    # fraction Gaussian elimination
    M = [row[:] for row in M]
    d = Fr(1)
    for i in range(n):
        piv = next((r for r in range(i, n) if M[r][i] != 0), None)
        if piv is None:
            return Fr(0)
        if piv != i:
            M[i], M[piv] = M[piv], M[i]
            d = -d
        d *= M[i][i]
        for r in range(i + 1, n):
            f = M[r][i] / M[i][i]
            if f:
                for c in range(i, n):
                    M[r][c] -= f * M[i][c]
    return d


def solve_fr(A, B):
    """Solve A X = B exactly (A n x n list of lists, B n x m). Returns None if singular."""
    n = len(A)
    m = len(B[0]) if n else 0
    M = [[fr(x) for x in A[i]] + [fr(x) for x in B[i]] for i in range(n)]
    for i in range(n):
        piv = next((r for r in range(i, n) if M[r][i] != 0), None)
        if piv is None:
            return None
        M[i], M[piv] = M[piv], M[i]
        inv = 1 / M[i][i]
        M[i] = [x * inv for x in M[i]]
        for r in range(n):
            if r != i and M[r][i] != 0:
                f = M[r][i]
                M[r] = [x - f * y for x, y in zip(M[r], M[i])]
    return [row[n:] for row in M]


# ---------------------------------------------------------------------------------------
# exact simplex geometry
# ---------------------------------------------------------------------------------------

def simplex_signed_measure(pts):
    """Signed measure of a simplex given (d+1) points of dimension d (exact)."""
    pts = [[fr(c) for c in p] for p in pts]
    d = len(pts[0])
    M = [[pts[i + 1][k] - pts[0][k] for k in range(d)] for i in range(d)]
    return det_fr(M) / math.factorial(d)


def barycentric(pts, x):
    """Exact barycentric coordinates of x w.r.t. a non-degenerate simplex."""
    pts = [[fr(c) for c in p] for p in pts]
    x = [fr(c) for c in x]
    d = len(x)
    A = [[pts[j + 1][i] - pts[0][i] for j in range(d)] for i in range(d)]
    b = [[x[i] - pts[0][i]] for i in range(d)]
    sol = solve_fr(A, b)
    if sol is None:
        return None
    lam = [s[0] for s in sol]
    return [1 - sum(lam)] + lam


def point_in_simplex(pts, x):
    lam = barycentric(pts, x)
    return lam is not None and all(l >= 0 for l in lam)
