"""MeshSpace: the mesh universe as reachable states of a transition system.

A state is plain data (class name, p, t, tags, constructor kwargs) from which a *fresh* real
mesh object is built on demand.  Seeds are small irregular straight-sided meshes with
dyadic coordinates (all midpoints / sums / volumes exact in binary floating point).  Raw
transitions model what a caller may hand to the default constructors (renumbering, cell
order, admissible local vertex orders); library transitions are real API calls and live in
the property modules that need them.
"""
from __future__ import annotations

import collections
import hashlib
import itertools

import numpy as np

from .topo import KIND_OF_CLASS, REF

# ---------------------------------------------------------------------------------------
# state
# ---------------------------------------------------------------------------------------


def _cls(name):
    import skfem
    import skfem.mesh as M
    return getattr(M, name)


class St:
    __slots__ = ('cls', 'p', 't', 'b', 's', 'kw', 'hist', 'depth')

    def __init__(self, cls, p, t, b=None, s=None, kw=None, hist=(), depth=0):
        self.cls = cls
        self.p = np.ascontiguousarray(np.asarray(p, dtype=np.float64))
        self.t = np.ascontiguousarray(np.asarray(t, dtype=np.int64))
        self.b = b
        self.s = s
        self.kw = dict(kw or {})
        self.hist = tuple(hist)
        self.depth = depth

    @property
    def kind(self):
        return KIND_OF_CLASS[self.cls]

    @property
    def nt(self):
        return self.t.shape[1]

    @property
    def nv(self):
        return self.p.shape[1]

    def build(self):
        """A fresh real mesh object through the default constructor."""
        kw = dict(self.kw)
        if self.b is not None:
            kw['_boundaries'] = {k: _copy_tag(v) for k, v in self.b.items()}
        if self.s is not None:
            kw['_subdomains'] = {k: np.array(v, copy=True) for k, v in self.s.items()}
        tdt = kw.pop('t_dtype', None)      # hand the connectivity over in another integer dtype (same values)
        t = self.t.copy() if tdt is None else self.t.astype(tdt)
        return _cls(self.cls)(self.p.copy(), t, **kw)

    def key(self):
        h = hashlib.sha1()
        h.update(self.cls.encode())
        h.update(repr(sorted(self.kw.items())).encode())
        h.update(self.p.tobytes())
        h.update(repr(self.p.shape).encode())
        h.update(self.t.tobytes())
        for tags in (self.b, self.s):
            if tags is None:
                h.update(b'None')
            else:
                for k in sorted(tags):
                    h.update(k.encode())
                    h.update(np.asarray(tags[k]).astype(np.int64).tobytes())
                    ori = getattr(tags[k], 'ori', None)
                    if ori is not None:
                        h.update(np.asarray(ori).astype(np.int64).tobytes())
        return h.hexdigest()

    def child(self, p=None, t=None, op=None, **over):
        st = St(self.cls if 'cls' not in over else over['cls'],
                self.p if p is None else p,
                self.t if t is None else t,
                over.get('b', None), over.get('s', None),
                over.get('kw', self.kw), self.hist + ((op,) if op is not None else ()),
                self.depth + 1)
        return st

    def describe(self):
        return {'cls': self.cls, 'nv': int(self.nv), 'nt': int(self.nt), 'hist': list(self.hist),
                'p': self.p.tolist(), 't': self.t.tolist(), 'kw': self.kw}


def _copy_tag(v):
    from skfem.generic_utils import OrientedBoundary
    ori = getattr(v, 'ori', None)
    if ori is not None:
        return OrientedBoundary(np.array(v, copy=True).view(np.ndarray), np.array(ori, copy=True))
    return np.array(v, copy=True)


def from_mesh(m, hist=(), depth=0, kw=None):
    """Snapshot a real mesh into a state (tags included)."""
    name = type(m).__name__
    if kw is None:
        kw = {}
        if name == 'MeshTri1' and not m.sort_t:
            kw = {'sort_t': False}
    b = None if m.boundaries is None else {k: _copy_tag(v) for k, v in m.boundaries.items()}
    s = None if m.subdomains is None else {k: np.array(v, copy=True) for k, v in m.subdomains.items()}
    return St(name, m.p.copy(), m.t.copy(), b, s, kw, hist, depth)


# ---------------------------------------------------------------------------------------
# seeds
# ---------------------------------------------------------------------------------------

# VERIF_SEED mod 4 selects one table of small dyadic offsets applied to designated free
# vertices; it never changes the shape of the explored space.
_OFFS = [
    [(1 / 16, -1 / 32, 1 / 32), (-1 / 32, 1 / 16, -1 / 16), (1 / 32, 1 / 32, 1 / 16)],
    [(-1 / 16, 1 / 32, -1 / 32), (1 / 32, -1 / 16, 1 / 16), (-1 / 32, -1 / 32, 1 / 32)],
    [(1 / 32, 1 / 16, -1 / 32), (1 / 16, 1 / 32, 1 / 32), (-1 / 16, 1 / 32, -1 / 16)],
    [(-1 / 32, -1 / 16, 1 / 16), (-1 / 16, -1 / 32, -1 / 32), (1 / 16, -1 / 32, 1 / 32)],
]


def _off(seed, i, dim):
    return np.array(_OFFS[seed % 4][i % 3][:dim])


def periodic_roots(seed=0):
    """Periodic meshes made by the library (Mesh*DG.init_tensor / .periodic): name -> St whose t is the identified
    (topological) connectivity and whose p holds the per-cell geometry nodes.  Only topological claims apply to them;
    at least three cells per periodic direction, so that a facet is still determined by its vertex set."""
    import skfem
    x4 = np.array([0., .5, 1.25, 2.])
    y3 = np.array([0., 1., 1.5])
    y4 = np.array([0., .75, 1., 1.5 + (seed % 2) * .25])
    z2 = np.array([0., 1.])
    out = collections.OrderedDict()

    def add(name, m):
        out[name] = from_mesh(m, hist=(name,))
    add('P:line3', skfem.MeshLine1DG.init_tensor(x4, periodic=[0]))
    add('P:tri-x', skfem.MeshTri1DG.init_tensor(x4, y3, periodic=[0]))
    add('P:tri-y', skfem.MeshTri1DG.init_tensor(y3, x4, periodic=[1]))
    add('P:tri-xy', skfem.MeshTri1DG.init_tensor(x4, y4, periodic=[0, 1]))
    add('P:quad-x', skfem.MeshQuad1DG.init_tensor(x4, y3, periodic=[0]))
    add('P:quad-xy', skfem.MeshQuad1DG.init_tensor(x4, y4, periodic=[0, 1]))
    add('P:hex-x', skfem.MeshHex1DG.init_tensor(x4, y3, z2, periodic=[0]))
    add('P:hex-z', skfem.MeshHex1DG.init_tensor(z2, y3, x4, periodic=[2]))
    # identification given explicitly on an irregular mesh: left and right vertical sides of a 3 x 1 strip
    mq = skfem.MeshQuad(np.array([[0, 0], [1, 0], [2.25, 0], [3, 0], [0, 1], [1, 1.25], [2.25, .75], [3, 1]], dtype=float).T,
                        np.array([[0, 1, 5, 4], [1, 2, 6, 5], [2, 3, 7, 6]]).T)
    add('P:quad-strip', skfem.MeshQuad1DG.periodic(mq, np.array([3, 7]), np.array([0, 4])))
    return out


def init_roots(seed=0):
    """Meshes made by the library's own named constructors (init_*), default constructors and refdom: name -> St."""
    import skfem
    x = np.array([0., .5, 1.25])
    y = np.array([0., 1., 1.5 + (seed % 2) * .25])
    z = np.array([0., .75])
    out = collections.OrderedDict()

    def add(name, f):
        m = f()
        out[name] = from_mesh(m, hist=(name,))
    add('I:MeshLine.init_tensor', lambda: skfem.MeshLine.init_tensor(np.array([0., .5, 2., 1.25])))
    add('I:MeshTri()', lambda: skfem.MeshTri())
    add('I:MeshTri.init_tensor', lambda: skfem.MeshTri.init_tensor(x, y))
    add('I:MeshTri.init_symmetric', lambda: skfem.MeshTri.init_symmetric())
    add('I:MeshTri.init_sqsymmetric', lambda: skfem.MeshTri.init_sqsymmetric())
    add('I:MeshTri.init_lshaped', lambda: skfem.MeshTri.init_lshaped())
    add('I:MeshTri.init_circle(1)', lambda: skfem.MeshTri.init_circle(1))
    add('I:MeshTri.init_refdom', lambda: skfem.MeshTri.init_refdom())
    add('I:MeshQuad()', lambda: skfem.MeshQuad())
    add('I:MeshQuad.init_tensor', lambda: skfem.MeshQuad.init_tensor(x, y))
    add('I:MeshQuad.init_refdom', lambda: skfem.MeshQuad.init_refdom())
    add('I:MeshTet()', lambda: skfem.MeshTet())
    add('I:MeshTet.init_tensor', lambda: skfem.MeshTet.init_tensor(x, y, z))
    add('I:MeshTet.init_ball(1)', lambda: skfem.MeshTet.init_ball(1))
    add('I:MeshTet.init_refdom', lambda: skfem.MeshTet.init_refdom())
    add('I:MeshHex()', lambda: skfem.MeshHex())
    add('I:MeshHex.init_tensor', lambda: skfem.MeshHex.init_tensor(x, y, z))
    add('I:MeshWedge1()', lambda: skfem.MeshWedge1())
    add('I:MeshWedge1.init_refdom', lambda: skfem.MeshWedge1.init_refdom())
    return out


def seeds(seed=0, kinds=None):
    """Ordered dict name -> St.  Simplest first within each kind."""
    out = collections.OrderedDict()

    def add(name, cls, p, t, **kw):
        out[name] = St(cls, np.array(p, dtype=float), np.array(t), kw=kw, hist=(name,))

    o = lambda i, d: _off(seed, i, d)  # noqa: E731

    # ---- segments
    add('L1', 'MeshLine1', [[.25, 1.5]], [[0], [1]])                     # a single cell: no interior facet
    add('L3', 'MeshLine1', [[0, .25, 1, 2.5]], [[0, 1, 2], [1, 2, 3]])
    add('L2c', 'MeshLine1', [[0, .5 + o(0, 1)[0], 1, 2, 2.75]], [[0, 1, 3], [1, 2, 4]])
    add('Lrev', 'MeshLine1', [[1, 0, .25 + o(1, 1)[0], 2.5]], [[0, 2, 1], [3, 0, 2]])

    # ---- triangles
    add('T1', 'MeshTri1', np.array([[0, 0], [1.25, .25], [.25, 1]]).T, np.array([[0, 1, 2]]).T)      # a single cell
    add('T2', 'MeshTri1', np.array([[0, 0], [1, 0], [0, 1], [1.25, .75]]).T,
        np.array([[0, 1, 2], [1, 3, 2]]).T)
    c = np.array([.5, .375]) + o(0, 2)
    add('Tfan4', 'MeshTri1', np.array([[0, 0], [1, 0], [1, 1], [0, 1], c]).T,
        np.array([[0, 1, 4], [1, 2, 4], [2, 3, 4], [3, 0, 4]]).T)
    P = np.array([[0, 0], [1, 0], [2, 0], [0, 1], np.array([1, 1]) + o(1, 2), [2, 1], [0, 2], [1, 2]],
                 dtype=float).T
    add('TL6', 'MeshTri1', P,
        np.array([[0, 1, 4], [0, 4, 3], [1, 2, 5], [1, 5, 4], [3, 4, 7], [3, 7, 6]]).T)
    P = np.array([[0, 0], [3, 0], [3, 3], [0, 3], [1, 1], np.array([2, 1]) + o(2, 2), [2, 2], [1, 2]],
                 dtype=float).T
    add('Tring8', 'MeshTri1', P,
        np.array([[0, 1, 4], [1, 5, 4], [1, 2, 5], [2, 6, 5], [2, 3, 6], [3, 7, 6], [3, 0, 7],
                  [0, 4, 7]]).T)
    P = np.array([[0, 0], [1, 0], [0, 1], [2, 0], [2, 1], [3, 3], [4, 3], [3, 4.5]], dtype=float).T
    add('T3comp', 'MeshTri1', P, np.array([[0, 1, 2], [1, 3, 4], [5, 6, 7]]).T)
    X, Y = np.meshgrid([0, .5, 2], [0, 1, 1.5])
    Pt = np.vstack((X.flatten('F'), Y.flatten('F')))
    ix = np.arange(9).reshape(3, 3, order='F')
    tt = []
    for i in range(2):
        for j in range(2):
            a, b, cc, d = ix[j, i], ix[j + 1, i], ix[j + 1, i + 1], ix[j, i + 1]
            tt += [[a, b, cc], [a, d, cc]]
    add('Ttensor8', 'MeshTri1', Pt, np.array(tt).T)

    # ---- quadrilaterals (counter-clockwise)
    add('Q1', 'MeshQuad1', np.array([[0, 0], [1, 0], [1.25, .75], [.125, 1]]).T,
        np.array([[0, 1, 2, 3]]).T)
    add('Q2', 'MeshQuad1',
        np.array([[0, 0], [1, .125], [2.25, 0], [0, 1], np.array([1.125, 1]) + o(0, 2), [2, 1.25]]).T,
        np.array([[0, 1, 4, 3], [1, 2, 5, 4]]).T)
    # one exactly affine (square) cell next to a general convex one: iterations that converge at different
    # speeds in different cells are only visible on such a mix
    add('Qmix', 'MeshQuad1', np.array([[0, 0], [1, 0], [2, -.25], [0, 1], [1, 1], np.array([2.5, 1.25]) + o(2, 2)]).T,
        np.array([[0, 1, 4, 3], [1, 2, 5, 4]]).T)
    G = np.array([[0, 0], [1, -.125], [2, .125], [-.125, 1], np.array([1.125, .875]) + o(1, 2), [2.25, 1],
                  [0, 2.25], [.875, 2], [2, 2.125]], dtype=float).T
    QT = np.array([[0, 1, 4, 3], [1, 2, 5, 4], [3, 4, 7, 6], [4, 5, 8, 7]]).T
    add('Q4gen', 'MeshQuad1', G, QT)
    A = np.array([[1, .25], [.5, 1]])
    Gp = A @ np.array([[0, 0], [1, 0], [2, 0], [0, 1], [1, 1], [2, 1], [0, 2], [1, 2], [2, 2]], dtype=float).T
    add('Q4par', 'MeshQuad1', Gp, QT)
    P = np.array([[0, 0], [3, 0], [3, 3], [0, 3], [1, 1], np.array([2, 1]) + o(2, 2), [2, 2], [1, 2],
                  [1.5, 0], [3, 1.5], [1.5, 3], [0, 1.5], [1.5, 1], [2, 1.5], [1.5, 2], [1, 1.5]],
                 dtype=float)
    P[12] = (P[4] + P[5]) / 2
    P[13] = (P[5] + P[6]) / 2
    add('Qring8', 'MeshQuad1', P.T,
        np.array([[0, 8, 12, 4], [8, 1, 5, 12], [1, 9, 13, 5], [9, 2, 6, 13], [2, 10, 14, 6],
                  [10, 3, 7, 14], [3, 11, 15, 7], [11, 0, 4, 15]]).T)

    # ---- tetrahedra
    V = np.array([[0, 0, 0], [1, 0, 0], [.25, 1, 0], [.125, .25, 1], [1, 1, 1.25], [-.75, .5, .5]],
                 dtype=float)
    add('K1', 'MeshTet1', V[:4].T, np.array([[0, 1, 2, 3]]).T)
    add('K2', 'MeshTet1', V[:5].T, np.array([[0, 1, 2, 3], [1, 2, 3, 4]]).T)
    # three tets around the edge 0-1 (z axis), open fan
    W = np.array([[0, 0, 0], [0, 0, 1], [1, 0, .25], [.5, 1, .5], [-1, .75, .25], np.array([-.5, -1, .5])
                  + o(0, 3)], dtype=float)
    add('K3', 'MeshTet1', W[:5].T, np.array([[0, 1, 2, 3], [0, 1, 3, 4]]).T)
    add('K3e', 'MeshTet1', W.T, np.array([[0, 1, 2, 3], [0, 1, 3, 4], [0, 1, 4, 5]]).T)
    cube = np.array([[0, 0, 0], [0, 0, 1], [0, 1, 0], [1, 0, 0], [0, 1, 1], [1, 0, 1], [1, 1, 0],
                     [1, 1, 1]], dtype=float)
    A3 = np.array([[1, .25, 0], [0, 1, .125], [.25, 0, 1.5]])
    add('K5', 'MeshTet1', A3 @ cube.T,
        np.array([[0, 1, 2, 3], [3, 5, 1, 7], [2, 3, 6, 7], [2, 3, 1, 7], [1, 2, 4, 7]]).T)
    # 6-cell Kuhn cube
    idx = {tuple(int(x) for x in q): i for i, q in enumerate(cube)}
    kt = []
    for perm in itertools.permutations(range(3)):
        cur = [0, 0, 0]
        pts = [idx[tuple(cur)]]
        for ax in perm:
            cur[ax] = 1
            pts.append(idx[tuple(cur)])
        kt.append(pts)
    add('K6', 'MeshTet1', (A3 @ cube.T) + np.array([[.5], [0], [0]]), np.array(kt).T)

    # ---- hexahedra (library local order; built from the reference cell table)
    from skfem.refdom import RefHex
    R = RefHex.p  # (3, 8)

    def frustum(Pc):
        Pc = np.array(Pc, dtype=float)
        f = 1 + Pc[2] / 4
        return np.vstack((Pc[0] * f, Pc[1] * f, Pc[2]))
    box = np.diag([1, .5, 2]) @ R
    add('H1', 'MeshHex1', box, np.arange(8).reshape(8, 1))
    # two hexes sharing the face x = 1: second is [1,2] x [0,1] x [0,1]; then frustum map
    pts = {}
    cells = []
    for cx in range(2):
        cell = []
        for i in range(8):
            q = (R[0, i] + cx, R[1, i], R[2, i])
            if q not in pts:
                pts[q] = len(pts)
            cell.append(pts[q])
        cells.append(cell)
    P2 = np.array(sorted(pts, key=pts.get), dtype=float).T
    add('H2', 'MeshHex1', frustum(P2), np.array(cells).T)
    # two hexahedra with NON-planar (bilinear) faces: one vertex of the shared face and one outer vertex displaced
    Pn = np.array(P2, dtype=float)
    sh = {tuple(Pn[:, k]): k for k in range(Pn.shape[1])}
    Pn[:, sh[(1., 1., 1.)]] += np.array([.125, .0625, .125])
    Pn[:, sh[(2., 0., 1.)]] += np.array([0., -.125, .25])
    add('Hnp', 'MeshHex1', Pn, np.array(cells).T)
    pts = {}
    cells = []
    for cx in range(2):
        for cy in range(2):
            cell = []
            for i in range(8):
                q = (R[0, i] + cx, R[1, i] * .5 + cy * .5, R[2, i])
                if q not in pts:
                    pts[q] = len(pts)
                cell.append(pts[q])
            cells.append(cell)
    P4 = np.array(sorted(pts, key=pts.get), dtype=float).T
    add('H4', 'MeshHex1', frustum(P4), np.array(cells).T)

    # ---- prisms
    add('W2', 'MeshWedge1', (A3 @ cube.T), np.array([[0, 2, 3, 1, 4, 5], [2, 3, 6, 4, 5, 7]]).T)
    # triangle mesh (2 cells) x 3 points: 4 prisms, irregular heights
    base = np.array([[0, 0], [1, 0], [0, 1], [1.25, .75]], dtype=float)
    zs = [0, 1, 2.5]
    Pw = np.array([[x, y, z] for z in zs for (x, y) in base]).T
    wt = []
    for lay in range(2):
        for tri in ([0, 1, 2], [1, 3, 2]):
            wt.append([v + 4 * lay for v in tri] + [v + 4 * (lay + 1) for v in tri])
    add('W4', 'MeshWedge1', Pw, np.array(wt).T)

    if kinds is not None:
        out = collections.OrderedDict((k, v) for k, v in out.items() if v.kind in kinds)
    return out


# ---------------------------------------------------------------------------------------
# raw transitions (caller-side deviations from the library's own numbering)
# ---------------------------------------------------------------------------------------

def _hex_rotations():
    """The 24 orientation-preserving symmetries of the reference hexahedron as permutations
    of local vertex indices, derived from the reference coordinates."""
    from skfem.refdom import RefHex
    R = RefHex.p.T  # (8, 3)
    idx = {tuple(int(x) for x in q): i for i, q in enumerate(R)}
    perms = []
    for ax in itertools.permutations(range(3)):
        for sg in itertools.product((1, -1), repeat=3):
            M = np.zeros((3, 3))
            for r in range(3):
                M[r, ax[r]] = sg[r]
            if round(np.linalg.det(M)) != 1:
                continue
            perm = []
            for q in R:
                z = M @ (q - .5) + .5
                perm.append(idx[tuple(int(round(x)) for x in z)])
            perms.append(tuple(perm))
    return sorted(set(perms))


_HEXROT = None


def hex_rotations():
    global _HEXROT
    if _HEXROT is None:
        _HEXROT = _hex_rotations()
    return _HEXROT


def hex_generators():
    rots = hex_rotations()
    ident = tuple(range(8))
    # two rotations of order 4 about different axes generate the group
    def order(p):
        q, n = p, 1
        while q != ident:
            q = tuple(p[i] for i in q)
            n += 1
        return n
    o4 = [p for p in rots if order(p) == 4]
    g1 = o4[0]
    g2 = next(p for p in o4 if p != g1 and tuple(g1[i] for i in g1) != tuple(p[i] for i in p)
              and p != tuple(g1[i] for i in tuple(g1[j] for j in g1)))
    return [g1, g2]


def local_orders(kind, full=False):
    """Admissible local vertex reorderings accepted by the default constructors, as
    permutations q with t_new[i] = t_old[q[i]].  (generators unless full=True)"""
    if kind == 'line':
        return [(1, 0)]
    if kind == 'tri':
        return [(1, 0, 2), (0, 2, 1)] if not full else [p for p in itertools.permutations(range(3))][1:]
    if kind == 'quad':
        return [(1, 2, 3, 0)] if not full else [(1, 2, 3, 0), (2, 3, 0, 1), (3, 0, 1, 2)]
    if kind == 'tet':
        return ([(1, 0, 2, 3), (0, 2, 1, 3), (0, 1, 3, 2)] if not full
                else [p for p in itertools.permutations(range(4))][1:])
    if kind == 'hex':
        return hex_generators() if not full else [p for p in hex_rotations() if p != tuple(range(8))]
    if kind == 'wedge':
        # rotations of the triangle about the axis, and the flip exchanging the two caps
        return [(1, 2, 0, 4, 5, 3), (3, 5, 4, 0, 2, 1)] if not full else [
            (1, 2, 0, 4, 5, 3), (2, 0, 1, 5, 3, 4), (3, 5, 4, 0, 2, 1), (5, 4, 3, 2, 1, 0),
            (4, 3, 5, 1, 0, 2)]
    raise KeyError(kind)


def raw_transitions(st, vertex_swaps=True, cell_swaps=True, local=True, mirror=False,
                    max_vertex_swaps=None):
    """Yield (label, new state) for every raw deviation of one step."""
    kind = st.kind
    nn = REF[kind]['nn']
    if st.t.shape[0] != nn or st.b is not None or st.s is not None:
        return
    nv, nt = st.nv, st.nt
    if vertex_swaps:
        pairs = list(itertools.combinations(range(nv), 2))
        if max_vertex_swaps is not None:
            pairs = pairs[:max_vertex_swaps]
        for i, j in pairs:
            perm = np.arange(nv)
            perm[i], perm[j] = j, i
            p = st.p[:, perm]           # new vertex k sits where old perm[k] was
            inv = np.argsort(perm)
            yield (f"vswap({i},{j})", st.child(p=p, t=inv[st.t], op=f"vswap({i},{j})"))
    if cell_swaps:
        for a, b in itertools.combinations(range(nt), 2):
            t = st.t.copy()
            t[:, [a, b]] = t[:, [b, a]]
            yield (f"cswap({a},{b})", st.child(t=t, op=f"cswap({a},{b})"))
    if local:
        for c in range(nt):
            for q in local_orders(kind):
                t = st.t.copy()
                t[:, c] = st.t[list(q), c]
                lab = f"lorder({c},{''.join(map(str, q))})"
                yield (lab, st.child(t=t, op=lab))
    if mirror and kind == 'quad':
        for c in range(nt):
            t = st.t.copy()
            t[:, c] = st.t[[0, 3, 2, 1], c]
            yield (f"cmirror({c})", st.child(t=t, op=f"cmirror({c})"))


def bfs(roots, expand, depth, max_states=None):
    """Generic breadth-first exploration with canonical-state dedup.

    roots: iterable of St or (St, depth budget); expand(st) -> iterable of (label, St);
    depth: default budget (number of further transitions allowed from a root).
    Yields ('state', st) for every distinct state, ('edge', pre, label, post) for every
    transition taken (also those leading to known states) and ('cut', ...) when the state
    cap refuses a new state.  A state reached again with a larger remaining budget is
    re-expanded (never re-reported), so every state within budget of some root is visited.
    """
    remaining = {}
    frontier = collections.deque()
    for r in roots:
        r, bud = r if isinstance(r, tuple) else (r, depth)
        k = r.key()
        if k not in remaining:
            remaining[k] = bud
            frontier.append((r, bud))
            yield ('state', r)
        elif remaining[k] < bud:
            remaining[k] = bud
            frontier.append((r, bud))
    while frontier:
        st, bud = frontier.popleft()
        if bud <= 0 or remaining[st.key()] > bud:
            continue
        for lab, nx in expand(st):
            if nx is None:
                continue
            yield ('edge', st, lab, nx)
            k = nx.key()
            if k in remaining:
                if remaining[k] < bud - 1:
                    remaining[k] = bud - 1
                    frontier.append((nx, bud - 1))
                continue
            if max_states is not None and len(remaining) >= max_states:
                yield ('cut', st, lab, nx)
                continue
            remaining[k] = bud - 1
            frontier.append((nx, bud - 1))
            yield ('state', nx)
