"""Runner for the bounded-exhaustive checks.

    ./check <ID> [--tier quick|thorough] [--seed N] [--replay FILE] [--jobs N]

Protocol of a property module ``mc.props.cNN``::

    ID, LEVEL, RULE, ASSUMPTIONS            constants
    items(tier, seed) -> list               picklable work items (deterministic order,
                                            simplest first)
    work(item, tier, seed) -> Out           explores one item on the real code

The runner distributes the items over processes, merges the ``Out`` records, matches
violation signatures against /verif/known_findings.json, writes a replay file per distinct
signature, writes the evidence file and sets the exit status:

    exit 0   nothing but KNOWN-FINDING lines
    exit 1   at least one ``VIOLATION property=<id> replay=<path>`` line
    exit 2   the harness itself is broken (never a verdict)
"""
from __future__ import annotations

import argparse
import importlib
import json
import multiprocessing as mp
import os
import signal
import sys
import time
import traceback

from .report import Out, KnownFindings, write_replay, jsonable

ROOT = os.path.dirname(os.path.dirname(os.path.abspath(__file__)))
EVID = os.path.join(ROOT, 'evidence')
REPL = os.path.join(ROOT, 'replays')


def _assert_tree():
    import skfem
    path = os.path.realpath(skfem.__file__)
    want = os.environ.get('SKFEM_VERIF_REPO', '/repo')
    if not path.startswith(os.path.realpath(want) + os.sep):
        print(f"HARNESS-ERROR: skfem imported from {path}, expected under {want}")
        sys.exit(2)


class _ItemTimeout(Exception):
    pass


def _alarm(signum, frame):
    raise _ItemTimeout()


def _run_item(args):
    modname, idx, item, tier, seed, tmo = args
    mod = importlib.import_module(modname)
    t0 = time.time()
    signal.signal(signal.SIGALRM, _alarm)
    signal.alarm(int(tmo))
    try:
        out = mod.work(item, tier, seed)
        if out is None:
            out = Out()
    except _ItemTimeout:
        out = Out()
        hook = getattr(mod, 'on_timeout', None)
        if hook is not None:
            hook(out, item, tmo)
        else:
            out.cap(f"item {idx} hit the {tmo}s watchdog: {jsonable(item)!r:.200}")
    except Exception:
        out = Out()
        out.harness_error(f"item {idx} {jsonable(item)!r:.300}\n{traceback.format_exc()}")
    finally:
        signal.alarm(0)
    out.item_time[idx] = time.time() - t0
    return idx, out


def main(argv=None):
    ap = argparse.ArgumentParser()
    ap.add_argument('prop')
    ap.add_argument('--tier', default=os.environ.get('VERIF_TIER', 'quick'),
                    choices=['quick', 'thorough'])
    ap.add_argument('--seed', type=int, default=int(os.environ.get('VERIF_SEED', '0') or 0))
    ap.add_argument('--replay')
    ap.add_argument('--jobs', type=int, default=int(os.environ.get('VERIF_JOBS', '0') or 0))
    ap.add_argument('--only', help='substring filter on item repr (debugging only; '
                                   'evidence is marked non-exhaustive)')
    ap.add_argument('--serial', action='store_true')
    a = ap.parse_args(argv)

    _assert_tree()
    pid = a.prop.upper()
    modname = f"mc.props.{pid.lower()}"
    mod = importlib.import_module(modname)
    t0 = time.time()

    if a.replay:
        return replay(mod, pid, a)

    items = list(mod.items(a.tier, a.seed))
    filtered = False
    if a.only:
        items = [it for it in items if a.only in repr(it)]
        filtered = True
    tmo = getattr(mod, 'ITEM_TIMEOUT', {'quick': 600, 'thorough': 3600})[a.tier]
    jobs = a.jobs or min(len(items), os.cpu_count() or 1, getattr(mod, 'MAX_JOBS', 16))
    jobs = max(jobs, 1)
    tasks = [(modname, i, it, a.tier, a.seed, tmo) for i, it in enumerate(items)]
    # schedule expensive items first when the module can estimate cost
    costf = getattr(mod, 'cost', None)
    order = list(range(len(tasks)))
    if costf is not None:
        order.sort(key=lambda i: -costf(items[i]))
    outs = {}
    if a.serial or jobs == 1:
        for i in order:
            idx, out = _run_item(tasks[i])
            outs[idx] = out
    else:
        ctx = mp.get_context(getattr(mod, 'MP_CONTEXT', 'fork'))
        with ctx.Pool(jobs, maxtasksperchild=getattr(mod, 'MAXTASKS', None)) as pool:
            for idx, out in pool.imap_unordered(_run_item, [tasks[i] for i in order], 1):
                outs[idx] = out

    total = Out()
    for i in range(len(items)):        # merge in item order: deterministic, simplest first
        total.merge(outs[i])
    fin = getattr(mod, 'finish', None)
    if fin is not None:
        fin(total, a.tier, a.seed)

    if total.harness_errors:
        for e in total.harness_errors[:5]:
            print("HARNESS-ERROR:", e)
        print(f"HARNESS-ERROR: {len(total.harness_errors)} item(s) crashed inside the harness")
        sys.exit(2)

    kf = KnownFindings(os.path.join(ROOT, 'known_findings.json'))
    by_sig = {}
    for v in total.violations:
        by_sig.setdefault(v['sig'], []).append(v)
    n_viol = 0
    n_known = 0
    lines = []
    for sig, vs in by_sig.items():
        v = vs[0]
        entry = kf.match(pid, sig)
        path = write_replay(REPL, pid, sig, v, a.tier, a.seed, len(vs))
        if entry is not None:
            n_known += 1
            lines.append(f"KNOWN-FINDING: property={pid} {sig} :: {entry.get('what', '')} "
                         f"({len(vs)} case(s); first: {v['msg']:.160}) replay={path}")
        else:
            n_viol += 1
            lines.append(f"VIOLATION property={pid} replay={path}")
            lines.append(f"  signature: {sig}  ({len(vs)} case(s))")
            lines.append(f"  first: {v['msg']:.400}")

    wall = time.time() - t0
    exhaustive = (not total.caps) and (not filtered) and total.exhaustive_flag
    cov = {
        'evaluations': int(total.evals),
        'distinct_nontrivial': int(len(total.nontrivial)),
        'rule': getattr(mod, 'RULE', ''),
        'samples': jsonable(total.samples[:getattr(mod, 'NSAMPLES', 6)]),
        'exhaustive': bool(exhaustive),
        'items': len(items),
        'distinct_outcomes': int(len(total.outcomes)),
        'caps_hit': total.caps[:20],
        'counters': {k: int(v) for k, v in sorted(total.counters.items())},
        'violating_signatures': sorted(by_sig.keys()),
        'known_finding_signatures': sorted(s for s in by_sig if kf.match(pid, s)),
        'bounds': getattr(mod, 'BOUNDS', {}).get(a.tier, {}),
    }
    if getattr(mod, 'LEVEL', 'exploration') == 'model_checking':
        cov['states'] = int(max(total.states, 1))
        cov['transitions'] = int(max(total.transitions, 1))
        # every explored trace is an execution of the real implementation
        cov['traces_validated_against_impl'] = int(total.traces or total.transitions)
    ev = {
        'property_id': pid,
        'tier': a.tier,
        'seed': a.seed,
        'level': getattr(mod, 'LEVEL', 'exploration'),
        'coverage': cov,
        'assumptions': list(getattr(mod, 'ASSUMPTIONS', [])),
        'wall_s': round(wall, 3),
        'violations': n_viol,
        'known_findings_seen': n_known,
    }
    os.makedirs(EVID, exist_ok=True)
    tmp = os.path.join(EVID, f".{pid}.json.tmp")
    with open(tmp, 'w') as fh:
        json.dump(ev, fh, indent=1, sort_keys=False)
    os.replace(tmp, os.path.join(EVID, f"{pid}.json"))

    shown = 0
    for ln in lines:
        if ln.startswith('VIOLATION'):
            shown += 1
        if shown > 12 and not ln.startswith('KNOWN-FINDING'):
            continue
        print(ln)
    if shown > 12:
        print(f"  ... {shown - 12} further violating signatures: see replays/{pid}/ and the evidence file")
    print(f"{pid} tier={a.tier} seed={a.seed} items={len(items)} evaluations={total.evals} "
          f"nontrivial={len(total.nontrivial)} states={total.states} transitions={total.transitions} "
          f"outcomes={len(total.outcomes)} caps={len(total.caps)} exhaustive={exhaustive} "
          f"violations={n_viol} known={n_known} wall={wall:.1f}s")
    if len(total.nontrivial) < 2 and not filtered:
        print("HARNESS-ERROR: vacuous exploration (fewer than 2 non-trivial cases)")
        sys.exit(2)
    sys.exit(1 if n_viol else 0)


def replay(mod, pid, a):
    with open(a.replay) as fh:
        rec = json.load(fh)
    item = rec['item']
    rp = getattr(mod, 'replay', None)
    if rp is not None:
        out = rp(rec, a.tier, a.seed)
    else:
        from .report import unjson
        out = mod.work(unjson(item), rec.get('tier', a.tier), rec.get('seed', a.seed))
    sigs = {v['sig'] for v in out.violations}
    if rec['sig'] in sigs:
        v = [v for v in out.violations if v['sig'] == rec['sig']][0]
        print(f"REPLAY property={pid} signature={rec['sig']} REPRODUCED: {v['msg']:.400}")
        sys.exit(1)
    print(f"REPLAY property={pid} signature={rec['sig']} not reproduced "
          f"(other signatures seen: {sorted(sigs)[:5]})")
    sys.exit(0)


if __name__ == '__main__':
    main()
