"""Set-based topology and exact geometry models computed from (p, t) only.

Nothing here calls into skfem's connectivity code: the reference-cell tables are copied
below and cross-checked against skfem.refdom once at import of ``ref_tables_check``.
"""
from __future__ import annotations

import itertools
from fractions import Fraction as Fr

import numpy as np

from . import exact as ex

# local vertex tuples of facets / edges per reference cell (as documented in skfem.refdom)
REF = {
    'line': dict(dim=1, nn=2, facets=[[0], [1]], edges=None),
    'tri': dict(dim=2, nn=3, facets=[[0, 1], [1, 2], [0, 2]], edges=None),
    'quad': dict(dim=2, nn=4, facets=[[0, 1], [1, 2], [2, 3], [0, 3]], edges=None),
    'tet': dict(dim=3, nn=4, facets=[[0, 1, 2], [0, 1, 3], [0, 2, 3], [1, 2, 3]],
                edges=[[0, 1], [1, 2], [0, 2], [0, 3], [1, 3], [2, 3]]),
    'hex': dict(dim=3, nn=8,
                facets=[[0, 1, 4, 2], [0, 2, 6, 3], [0, 3, 5, 1], [2, 4, 7, 6], [1, 5, 7, 4],
                        [3, 6, 7, 5]],
                edges=[[0, 1], [0, 2], [0, 3], [1, 4], [1, 5], [2, 4], [2, 6], [3, 5], [3, 6],
                       [4, 7], [5, 7], [6, 7]]),
    'wedge': dict(dim=3, nn=6,
                  facets=[[0, 1, 4, 3], [1, 2, 5, 4], [0, 2, 5, 3], [0, 1, 2], [3, 4, 5]],
                  edges=[[0, 1], [1, 2], [0, 2], [3, 4], [4, 5], [3, 5], [0, 3], [1, 4], [2, 5]]),
}

KIND_OF_CLASS = {
    'MeshLine1': 'line', 'MeshTri1': 'tri', 'MeshQuad1': 'quad', 'MeshTet1': 'tet',
    'MeshHex1': 'hex', 'MeshWedge1': 'wedge', 'MeshTri2': 'tri', 'MeshQuad2': 'quad',
    'MeshTet2': 'tet', 'MeshHex2': 'hex',
    # periodic ("discontinuous topology") classes: t is the identified connectivity, p holds per-cell geometry nodes
    'MeshLine1DG': 'line', 'MeshTri1DG': 'tri', 'MeshQuad1DG': 'quad', 'MeshHex1DG': 'hex',
}


def kind_of(mesh):
    return KIND_OF_CLASS[type(mesh).__name__]


def check_ref_tables():
    """The copied tables must match the library's reference cells (as vertex *sets*)."""
    from skfem import refdom as rd
    m = {'line': rd.RefLine, 'tri': rd.RefTri, 'quad': rd.RefQuad, 'tet': rd.RefTet,
         'hex': rd.RefHex, 'wedge': rd.RefWedge}
    bad = []
    for k, r in m.items():
        if [sorted(set(f)) for f in r.facets] != [sorted(set(f)) for f in REF[k]['facets']]:
            bad.append((k, 'facets'))
        if (r.edges is None) != (REF[k]['edges'] is None) or (
                r.edges is not None and [sorted(e) for e in r.edges] != [sorted(e) for e in REF[k]['edges']]):
            bad.append((k, 'edges'))
    return bad


class Topo:
    """Entities as frozensets of global vertex ids, straight from the cell list."""

    def __init__(self, kind, t):
        self.kind = kind
        ref = REF[kind]
        t = np.asarray(t)[:ref['nn']]
        self.nt = t.shape[1]
        self.cells = [tuple(int(v) for v in t[:, c]) for c in range(self.nt)]
        self.cell_facets = [[frozenset(cell[i] for i in f) for f in ref['facets']]
                            for cell in self.cells]
        self.cell_facets_ordered = [[tuple(cell[i] for i in f) for f in ref['facets']]
                                    for cell in self.cells]
        self.facet_cells = {}
        for c, fs in enumerate(self.cell_facets):
            for f in fs:
                self.facet_cells.setdefault(f, []).append(c)
        if ref['edges'] is not None:
            self.cell_edges = [[frozenset(cell[i] for i in e) for e in ref['edges']]
                               for cell in self.cells]
            self.edge_cells = {}
            for c, es in enumerate(self.cell_edges):
                for e in es:
                    self.edge_cells.setdefault(e, []).append(c)
        else:
            self.cell_edges = None
            self.edge_cells = None
        self.vertices = sorted({v for cell in self.cells for v in cell})

    # facets of a facet (edges of 3-D facets), from the ordered facet tuple
    def facet_edges(self, ordered):
        n = len(ordered)
        if n == 3:
            return [frozenset((ordered[0], ordered[1])), frozenset((ordered[1], ordered[2])),
                    frozenset((ordered[0], ordered[2]))]
        if n == 4:
            return [frozenset((ordered[i], ordered[(i + 1) % 4])) for i in range(4)]
        return []

    def boundary_facets(self):
        return {f for f, cs in self.facet_cells.items() if len(cs) == 1}

    def interior_facets(self):
        return {f for f, cs in self.facet_cells.items() if len(cs) >= 2}

    def boundary_vertices(self):
        return {v for f in self.boundary_facets() for v in f}

    def boundary_edges(self):
        """Edges contained in a boundary facet (3-D)."""
        out = set()
        bf = self.boundary_facets()
        for c, fs in enumerate(self.cell_facets):
            for k, f in enumerate(fs):
                if f in bf:
                    for e in self.cell_edges[c]:
                        if e <= f:
                            out.add(e)
        return out


# ---------------------------------------------------------------------------------------
# exact geometry on straight-sided first-order cells
# ---------------------------------------------------------------------------------------

# decomposition of reference cells into simplices (local vertex indices); for hexahedra and
# prisms with planar faces any such decomposition has the cell's exact volume
SIMPLICES = {
    'line': [[0, 1]],
    'tri': [[0, 1, 2]],
    'quad': [[0, 1, 2], [0, 2, 3]],
    'tet': [[0, 1, 2, 3]],
    'wedge': [[0, 1, 2, 3], [1, 2, 3, 4], [2, 3, 4, 5]],
}


def _hex_simplices():
    # skfem RefHex vertex i has coordinates HEXP[i]; split the unit cube into 6 tets along
    # the main diagonal 7-0 ((0,0,0)-(1,1,1)), expressed in local indices.
    HEXP = [(1, 1, 1), (1, 1, 0), (1, 0, 1), (0, 1, 1), (1, 0, 0), (0, 1, 0), (0, 0, 1), (0, 0, 0)]
    idx = {p: i for i, p in enumerate(HEXP)}
    tets = []
    for perm in itertools.permutations(range(3)):
        pts = [(0, 0, 0)]
        cur = [0, 0, 0]
        for ax in perm:
            cur[ax] = 1
            pts.append(tuple(cur))
        tet = [idx[q] for q in pts]
        # odd permutations give the opposite orientation: swap two vertices so that all six
        # sub-simplices of a valid hexahedron have the same sign
        inv = sum(1 for i in range(3) for j in range(i + 1, 3) if perm[i] > perm[j])
        if inv % 2:
            tet[2], tet[3] = tet[3], tet[2]
        tets.append(tet)
    return tets


SIMPLICES['hex'] = _hex_simplices()


def cell_measure(kind, pts):
    """Exact |measure| of a straight-sided cell with vertex list pts (local order)."""
    tot = Fr(0)
    for s in SIMPLICES[kind]:
        tot += simplex_abs([pts[i] for i in s])
    return tot


def simplex_abs(pts):
    return abs(ex.simplex_signed_measure(pts))


def cell_signed_measures(kind, pts):
    return [ex.simplex_signed_measure([pts[i] for i in s]) for s in SIMPLICES[kind]]


def mesh_measure(kind, p, t):
    p = np.asarray(p)
    tot = Fr(0)
    for c in range(t.shape[1]):
        pts = [p[:, v] for v in t[:REF[kind]['nn'], c]]
        tot += cell_measure(kind, pts)
    return tot


def point_in_cell(kind, pts, x):
    """Exact closed containment of x in a convex straight cell (union of its simplices)."""
    return any(ex.point_in_simplex([pts[i] for i in s], x) for s in SIMPLICES[kind]
               if ex.simplex_signed_measure([pts[i] for i in s]) != 0)


def fpt(p, v):
    """Exact coordinates (tuple of Fractions) of vertex v."""
    return tuple(Fr(float(c)) for c in p[:, v])


def midpoint(a, b):
    return tuple((x + y) / 2 for x, y in zip(a, b))


def on_segment_interior(a, b, x):
    """x strictly inside segment a-b (exact; any dimension)."""
    d = [bb - aa for aa, bb in zip(a, b)]
    r = [xx - aa for aa, xx in zip(a, x)]
    # parallel?
    k = next((i for i, di in enumerate(d) if di != 0), None)
    if k is None:
        return False
    s = r[k] / d[k]
    if not (0 < s < 1):
        return False
    return all(ri == s * di for ri, di in zip(r, d))


def point_in_face_relint(face_pts, x):
    """x in the relative interior of a planar convex polygon (triangle or quad) in 3-D,
    or of a segment in 2-D (exact). Vertices given in cyclic order."""
    n = len(face_pts)
    if n == 2:
        return on_segment_interior(face_pts[0], face_pts[1], x)
    # fan-triangulate; test barycentric in each triangle in the plane
    def sub(u, v):
        return [a - b for a, b in zip(u, v)]

    def cross(u, v):
        return [u[1] * v[2] - u[2] * v[1], u[2] * v[0] - u[0] * v[2], u[0] * v[1] - u[1] * v[0]]

    def dot(u, v):
        return sum(a * b for a, b in zip(u, v))
    nrm = cross(sub(face_pts[1], face_pts[0]), sub(face_pts[2], face_pts[0]))
    if dot(nrm, sub(x, face_pts[0])) != 0:
        return False
    # inside convex polygon: same side of all edges (strict), w.r.t. the normal
    sgn = None
    for i in range(n):
        a, b = face_pts[i], face_pts[(i + 1) % n]
        s = dot(cross(sub(b, a), sub(x, a)), nrm)
        if s == 0:
            return False
        if sgn is None:
            sgn = s > 0
        elif (s > 0) != sgn:
            return False
    return True


# ---------------------------------------------------------------------------------------
# validity of a straight-sided mesh (exact): the oracle shared by C12 / C13 / C18
# ---------------------------------------------------------------------------------------

def geometry_problems(kind, p, t, check_hanging=True):
    """List of human-readable problems: degenerate / inverted-within-cell, duplicate vertices,
    unused vertices, hanging nodes (a vertex in the relative interior of a facet or edge of
    a cell that does not have it as a vertex)."""
    ref = REF[kind]
    p = np.asarray(p, dtype=float)
    t = np.asarray(t)[:ref['nn']]
    probs = []
    nv = p.shape[1]
    # duplicates (exact float equality == exact rational equality)
    seen = {}
    for v in range(nv):
        k = tuple(p[:, v].tolist())
        if k in seen:
            probs.append(f"duplicate vertices {seen[k]} and {v} at {k}")
            break
        seen[k] = v
    used = set(int(v) for v in t.flatten())
    if used != set(range(nv)):
        probs.append(f"vertices not referenced by any cell: {sorted(set(range(nv)) - used)[:5]}")
    if t.min() < 0 or t.max() >= nv:
        probs.append("cell refers to a vertex out of range")
        return probs
    F = [fpt(p, v) for v in range(nv)]
    for c in range(t.shape[1]):
        pts = [F[v] for v in t[:, c]]
        if len(set(int(v) for v in t[:, c])) != ref['nn']:
            probs.append(f"cell {c} repeats a vertex: {t[:, c].tolist()}")
            continue
        sm = cell_signed_measures(kind, pts)
        if any(x == 0 for x in sm):
            probs.append(f"cell {c} degenerate (zero-measure sub-simplex)")
        elif kind in ('quad', 'hex', 'wedge') and len({x > 0 for x in sm}) > 1:
            probs.append(f"cell {c} not convex / self-inverted")
    if check_hanging and not probs:
        top = Topo(kind, t)
        lo = p.min(axis=1)
        # facets
        for f_ord in {tuple(fo) for cf in top.cell_facets_ordered for fo in cf}:
            fs = set(f_ord)
            if len(f_ord) < 2:
                continue
            fp = p[:, list(f_ord)]
            bmin, bmax = fp.min(axis=1) - 1e-9, fp.max(axis=1) + 1e-9
            cand = np.nonzero(((p >= bmin[:, None]) & (p <= bmax[:, None])).all(axis=0))[0]
            for v in cand:
                if int(v) in fs:
                    continue
                if point_in_face_relint([F[u] for u in f_ord], F[int(v)]):
                    probs.append(f"hanging node: vertex {int(v)} inside facet {sorted(fs)}")
                    return probs
        if top.edge_cells is not None:
            for e in top.edge_cells:
                a, b = tuple(e)
                ep = p[:, [a, b]]
                bmin, bmax = ep.min(axis=1) - 1e-9, ep.max(axis=1) + 1e-9
                cand = np.nonzero(((p >= bmin[:, None]) & (p <= bmax[:, None])).all(axis=0))[0]
                for v in cand:
                    if int(v) in e:
                        continue
                    if on_segment_interior(F[a], F[b], F[int(v)]):
                        probs.append(f"hanging node: vertex {int(v)} inside edge {sorted(e)}")
                        return probs
    return probs


def hex_faces_planar(p, t):
    """All quadrilateral faces of hexahedra/prisms planar (exact)."""
    for kind_nn, kind in ((8, 'hex'), (6, 'wedge')):
        if t.shape[0] == kind_nn:
            break
    F = {}
    for c in range(t.shape[1]):
        for f in REF[kind]['facets']:
            if len(f) != 4:
                continue
            q = [fpt(p, t[i, c]) for i in f]
            M = [[q[k][d] - q[0][d] for d in range(3)] for k in (1, 2, 3)]
            if ex.det_fr(M) != 0:
                return False
    return True
