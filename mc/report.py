"""Result records, known-findings matching, replay files."""
from __future__ import annotations

import collections
import fnmatch
import hashlib
import json
import os

import numpy as np


def jsonable(x):
    if isinstance(x, dict):
        return {str(k): jsonable(v) for k, v in x.items()}
    if isinstance(x, (list, tuple, set, frozenset)):
        xs = list(x)
        if isinstance(x, (set, frozenset)):
            xs = sorted(xs, key=repr)
        return [jsonable(v) for v in xs]
    if isinstance(x, np.ndarray):
        return jsonable(x.tolist())
    if isinstance(x, (np.integer,)):
        return int(x)
    if isinstance(x, (np.floating,)):
        return float(x)
    if isinstance(x, (np.bool_,)):
        return bool(x)
    if isinstance(x, complex):
        return [x.real, x.imag]
    if isinstance(x, (str, int, float, bool)) or x is None:
        return x
    return repr(x)


def unjson(x):
    """Work items are nested tuples of primitives; JSON turned them into lists."""
    if isinstance(x, list):
        return tuple(unjson(v) for v in x)
    return x


class Out:
    """What one work item (or the merged run) covered and found."""

    MAXV = 400       # violations kept verbatim per item (counts are kept beyond that)

    def __init__(self):
        self.evals = 0
        self.nontrivial = set()      # distinct keys of non-trivial cases
        self.outcomes = set()        # distinct observed outcomes (vacuity indicator)
        self.violations = []         # dicts: sig, msg, item, case
        self.samples = []
        self.states = 0
        self.transitions = 0
        self.traces = 0
        self.caps = []
        self.counters = collections.Counter()
        self.harness_errors = []
        self.item_time = {}
        self.exhaustive_flag = True
        self._item = None
        self._sigcount = collections.Counter()

    # -- recording ------------------------------------------------------------------
    def set_item(self, item):
        self._item = item

    def ev(self, n=1):
        self.evals += n

    def nt(self, key):
        """Register a distinct non-trivial case (key must identify the case)."""
        self.nontrivial.add(key if isinstance(key, str) else repr(key))

    def outcome(self, key):
        if len(self.outcomes) < 100000:
            self.outcomes.add(key if isinstance(key, str) else repr(key))

    def count(self, name, n=1):
        self.counters[name] += n

    def sample(self, s, limit=3):
        if len(self.samples) < limit:
            self.samples.append(jsonable(s))

    def cap(self, what):
        self.caps.append(str(what))
        self.exhaustive_flag = False

    def harness_error(self, what):
        self.harness_errors.append(str(what))

    def violation(self, sig, msg, case=None, item=None):
        self._sigcount[sig] += 1
        self.counters['violating_cases'] += 1
        if self._sigcount[sig] > 3 or len(self.violations) >= self.MAXV:
            # keep first few per signature verbatim, count the rest
            self.violations.append({'sig': sig, 'msg': str(msg)[:200], 'item': None, 'case': None}) \
                if self._sigcount[sig] <= 50 else None
            return
        self.violations.append({
            'sig': sig,
            'msg': str(msg),
            'item': jsonable(item if item is not None else self._item),
            'case': jsonable(case),
        })

    # -- merging --------------------------------------------------------------------
    def merge(self, o: 'Out'):
        self.evals += o.evals
        self.nontrivial |= o.nontrivial
        self.outcomes |= o.outcomes
        self.violations += o.violations
        for s in o.samples:
            if len(self.samples) < 12:
                self.samples.append(s)
        self.states += o.states
        self.transitions += o.transitions
        self.traces += o.traces
        self.caps += o.caps
        self.counters.update(o.counters)
        self.harness_errors += o.harness_errors
        self.item_time.update(o.item_time)
        self.exhaustive_flag = self.exhaustive_flag and o.exhaustive_flag


class KnownFindings:
    """/verif/known_findings.json: committed, never written at run time.

    entries: {"property": "C12", "signature": "<exact or fnmatch pattern>",
              "status": "open" | "fixed", "what": "...", "commit": "..."}
    Only status == "open" suppresses a VIOLATION (as KNOWN-FINDING); "fixed" suppresses
    nothing.
    """

    def __init__(self, path):
        self.entries = []
        if os.path.exists(path):
            with open(path) as fh:
                self.entries = json.load(fh).get('findings', [])

    def match(self, pid, sig):
        for e in self.entries:
            if e.get('property') != pid or e.get('status') != 'open':
                continue
            pat = e.get('signature', '')
            if pat == sig or fnmatch.fnmatchcase(sig, pat):
                return e
        return None


def write_replay(root, pid, sig, v, tier, seed, ncases):
    d = os.path.join(root, pid)
    os.makedirs(d, exist_ok=True)
    h = hashlib.sha1(sig.encode()).hexdigest()[:12]
    path = os.path.join(d, f"{h}.json")
    # find first verbatim record
    rec = {
        'property': pid, 'sig': sig, 'msg': v['msg'], 'item': v['item'], 'case': v['case'],
        'tier': tier, 'seed': seed, 'cases_with_this_signature': ncases,
        'how_to_replay': f"./check {pid} --replay {path}",
    }
    with open(path, 'w') as fh:
        json.dump(rec, fh, indent=1)
    return path
